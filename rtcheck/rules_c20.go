package main

import (
	"fmt"
	"go/constant"
	"go/token"
	"go/types"
	"sort"
	"strings"
	"text/template/parse"

	"golang.org/x/tools/go/ssa"
)

func init() {
	register(&Property{
		ID: "C20",
		Explanation: "Decides: R20.1 in the Spec and serveUI handlers every write to the ResponseWriter happens only under string EQUALITY of path.Clean(r.URL.Path) with the configured document path, or in the 404 fallback under next == nil; every other request is forwarded to next with the unmodified (rw, r) and the handlers never write through the request; the document path is path.Join of the options; Spec writes the very bytes it was given, as JSON; the four UI constructors render once at construction and serve exactly that rendering at path.Join(BasePath, Path) (resp. the OAuth callback URL). " +
			"R20.2 every template executed by package middleware is an html/template (option values are escaped). R20.3 the API handlers derive the spec route from the UI's SpecURL for every URL that parses, and the three flavours wire Spec(specPath, raw spec, UI(opts, routes), doc option) identically. " +
			"R20.4 every field referenced by the built-in templates exists in the options struct it is executed with. " +
			"R20.3 also: SpecURL is only ever set from an option argument, copied, or defaulted when empty — never rewritten. " +
			"R20.1 also: the page is rendered into a buffer created by that very construction; R20.3 also: the spec document name is stored verbatim. " +
			"R20.1 also: the serving closures capture no reader or buffer (no shared read position); R20.3 also: the common options are decoded into the flavour's options in place, the target is never replaced as a whole. " +
			"R20.3 also: a configured UI / spec path is stored as given. " +
			"NOT decided: the text html/template emits; behaviour of path.Clean/url.Parse.",
		Run: runC20,
	})
}

func runC20(c *Ctx) {
	p := c.P
	type site struct {
		outer string
		what  string
	}
	for _, s := range []site{{"rt/middleware.Spec", "spec"}, {"rt/middleware.serveUI", "ui"}} {
		outer := p.Fn(s.outer)
		f := c.theHandlerClosure(outer)
		rw, r := hRW(f), hReq(f)
		// the interception fact: path.Clean(r.URL.Path) == pth
		isClean := func(v ssa.Value) bool {
			call := asCall(v)
			if call == nil || calleeName(&call.Call) != "path.Clean" {
				return false
			}
			ok, _ := allOrigins(call.Call.Args[0], oFieldLoad("net/url.URL", "Path", vOrigins(oFieldLoad("net/http.Request", "URL", vOrigins(oIsValue(r))))))
			return ok
		}
		var pthOK func(v ssa.Value) (bool, string)
		if s.what == "spec" {
			pthOK = func(v ssa.Value) (bool, string) {
				ok, bad := allOrigins(v, oCallWhere(-1, "path.Join", func(j *ssa.Call) bool {
					elems, okk := sliceLitElems(j.Call.Args[0])
					if !okk || len(elems) != 3 {
						return false
					}
					okB, _ := allOrigins(elems[0], oIsValue(roleParam(outer, "string", 0)), oConstString("/"))
					okP := vFieldLoadO("rt/middleware.specOptions", "Path")(elems[1])
					okD := vFieldLoadO("rt/middleware.specOptions", "Document")(elems[2])
					if !okP || !okD {
						// both (string) fields renamed at once: names cannot be told apart, positions can — the sub-path is
						// the first and the document name the second field of specOptions
						i1, ok1 := specOptionFieldIndex(elems[1])
						i2, ok2 := specOptionFieldIndex(elems[2])
						okP, okD = ok1 && ok2 && i1 == 0, ok1 && ok2 && i2 == 1
					}
					return okB && okP && okD
				}), oConstString("/")) // ("/": a fallback for an empty join, which path.Join never yields)
				ok = ok && someOrigin(v, oCall(-1, "path.Join"))
				return ok, describeOrigin(bad)
			}
		} else {
			pthOK = func(v ssa.Value) (bool, string) {
				ok, bad := allOrigins(v, oIsValue(roleParam(outer, "string", 0)))
				return ok, describeOrigin(bad)
			}
		}
		intercept := func(cond ssa.Value, branch bool) bool {
			cnd, b := stripNot(cond, branch)
			bo, ok := cnd.(*ssa.BinOp)
			if !ok || (bo.Op != token.EQL && bo.Op != token.NEQ) {
				return false
			}
			var other ssa.Value
			if isClean(bo.X) {
				other = bo.Y
			} else if isClean(bo.Y) {
				other = bo.X
			} else {
				return false
			}
			if ok, _ := pthOK(other); !ok {
				return false
			}
			return b == (bo.Op == token.EQL)
		}
		nextVal := vOrigins(oIsValue(roleParam(outer, "net/http.Handler", len(outer.Params)-1)))
		if s.what == "spec" {
			nextVal = vOrigins(oIsValue(roleParam(outer, "net/http.Handler", 2)))
		}
		noNext := factNil(nextVal, true)
		haveNext := factNil(nextVal, false)
		nWrites := 0
		for _, ci := range allCalls(f) {
			name := calleeName(ci.Common())
			switch name {
			case "(net/http.ResponseWriter).Write", "(net/http.ResponseWriter).WriteHeader", "(net/http.ResponseWriter).Header":
				nWrites++
				// (on every path one of the two facts: a shared write — the Content-Type set once for both answers — is
				// reached through "ours" on some paths and through "no next handler" on the others)
				ok := guardedBy(ci, nil, intercept) || guardedBy(ci, nil, noNext) || guardedBy(ci, nil, anyFact(intercept, noNext))
				c.obI("R20.1", ci, s.what+"-write-only-on-own-path", ok,
					"the middleware touches the response only when path.Clean(r.URL.Path) EQUALS its document path (or, without a next handler, to answer 404)",
					"a response write is reachable for a request whose cleaned path differs from the document path although a next handler exists")
			case "(net/http.Handler).ServeHTTP":
				recv, args := callArgs(ci.Common())
				okN := nextVal(recv)
				okA, _ := allOrigins(args[0], oIsValue(rw))
				okR, _ := allOrigins(args[1], oIsValue(r))
				c.obI("R20.1", ci, s.what+"-forwards-unmodified", okN && okA && okR, "every other request is handed to the next handler with the very ResponseWriter and Request received", "next.ServeHTTP is not called with (rw, r) of the incoming request")
				c.obI("R20.1", ci, s.what+"-next-non-nil", guardedBy(ci, nil, haveNext), "next is only called when it is non-nil", "next.ServeHTTP reachable with a nil next")
				// … and only for foreign requests: a request is passed on only on a path on which its cleaned path was
				// compared with the document path and differs (no cheaper pre-test on the raw path decides it)
				notOurs := func(cond ssa.Value, branch bool) bool { return intercept(cond, !branch) }
				c.obI("R20.1", ci, s.what+"-own-path-always-served", guardedBy(ci, nil, notOurs), "every request whose cleaned path equals the document path is served here: it is handed to the next handler only when path.Clean(r.URL.Path) differs from the document path", "a request can be passed to the next handler without its cleaned path having been found different from the document path")
				// a request that is not ours always reaches next: no path from entry to a return avoiding both interception and next when next != nil
			default:
				if strings.HasPrefix(name, "(net/http.ResponseWriter).") {
					nWrites++
				}
			}
		}
		// pass-through is total: when the path differs and next != nil, the handler returns only after calling next
		for _, ret := range returnsOf(f) {
			notOurs := func(cond ssa.Value, branch bool) bool { return intercept(cond, !branch) }
			_ = notOurs
			skipped := pathExists(f, nil, ret, anyFact(intercept, noNext), isCallInstrTo("(net/http.Handler).ServeHTTP"))
			c.obI("R20.1", ret, s.what+"-passes-through", !skipped, "a request for any other path reaches the next handler (when there is one)", "the handler can return without forwarding a foreign request")
		}
		// the handler never writes through the request (r.URL.Path = ..., r.URL = ...)
		for _, in := range instrs(f) {
			st, ok := in.(*ssa.Store)
			if !ok {
				continue
			}
			if rootedAt(st.Addr, r) {
				c.obI("R20.1", st, s.what+"-request-unmodified", false, "the middleware never modifies the request it forwards", "store through the request: "+describe(st.Addr))
			}
		}
		for _, ci := range allCalls(f) {
			// calls that receive r other than next.ServeHTTP could modify it: only reads (path.Clean on a string) are expected
			if calleeName(ci.Common()) == "(net/http.Handler).ServeHTTP" {
				continue
			}
			for _, a := range ci.Common().Args {
				if a == ssa.Value(r) {
					c.obI("R20.1", ci, s.what+"-request-escapes", false, "the request is only handed to next", "request passed to "+calleeName(ci.Common()))
				}
			}
		}
		// the handler serves concurrent requests: what it captures from its constructor holds no read position (a shared
		// bytes.Reader / Buffer would be rewound and advanced by overlapping requests, which then get a truncated document)
		for _, in := range instrs(outer) {
			mc, isMC := in.(*ssa.MakeClosure)
			if !isMC || mc.Fn != ssa.Value(f) {
				continue
			}
			for i, b := range mc.Bindings {
				t := b.Type()
				for k := 0; k < 2; k++ {
					if pt, isP := t.Underlying().(*types.Pointer); isP {
						t = pt.Elem()
					}
				}
				switch typeStr(t) {
				case "bytes.Reader", "bytes.Buffer", "strings.Reader", "strings.Builder", "bufio.Reader", "bufio.Writer", "bufio.ReadWriter", "io.SectionReader", "io.Reader", "io.ReadSeeker", "io.ReadCloser", "os.File":
					name := ""
					if i < len(f.FreeVars) {
						name = f.FreeVars[i].Name()
					}
					c.obD("R20.1", mc, s.what+"-handler-captures-no-cursor", false, "the serving closure captures no reader or buffer of its constructor: every request is answered from the immutable document bytes", "captured variable '"+name+"' is a "+typeStr(t)+" shared by all requests: its read position is moved by concurrent requests")
				}
			}
		}
		c.obF("R20.1", f, s.what+"-has-interception", nWrites >= 2, "the handler serves its document", fmt.Sprintf("%d response writes", nWrites))
		// the document's content type REPLACES whatever the response already carries (Header.Set): a value merely added
		// behind one an outer handler left there is not the one clients read
		for _, ci := range callsIn(f, "(net/http.Header).Add") {
			_, args := callArgs(ci.Common())
			if k, isK := constString(args[0]); isK && strings.EqualFold(k, "Content-Type") {
				c.obD("R20.1", ci, s.what+"-content-type-set-not-added", false, "the served document's Content-Type is written with Header.Set", "Content-Type is written with Header.Add: an existing value stays in front")
			}
		}
		nSetCT := 0
		for _, ci := range callsIn(f, "(net/http.Header).Set") {
			_, args := callArgs(ci.Common())
			if k, isK := constString(args[0]); isK && strings.EqualFold(k, "Content-Type") && guardedBy(ci, nil, intercept) {
				nSetCT++
			}
		}
		c.obRF("R20.1", f, s.what+"-sets-content-type", nSetCT >= 1, "the handler sets the Content-Type of the document it serves", fmt.Sprintf("%d Header.Set", nSetCT))
		if s.what == "spec" {
			for _, ci := range callsIn(f, "(net/http.ResponseWriter).Write") {
				if !guardedBy(ci, nil, intercept) {
					continue
				}
				_, args := callArgs(ci.Common())
				ok, bad := allOrigins(args[0], oIsValue(roleParam(outer, "[]byte", 1)))
				c.obI("R20.1", ci, "spec-writes-given-bytes", ok, "Spec serves exactly the bytes it was given", "origin "+describeOrigin(bad))
			}
			for _, ci := range callsIn(f, "(net/http.Header).Set") {
				if !guardedBy(ci, nil, intercept) {
					continue
				}
				_, args := callArgs(ci.Common())
				k, _ := constString(args[0])
				v, _ := constString(args[1])
				c.obI("R20.1", ci, "spec-json-content-type", k == "Content-Type" && v == "application/json", "the spec document is served as application/json", fmt.Sprintf("header %q: %q", k, v))
			}
		}
	}
	c.min("R20.1", 14)

	// UI constructors: render once, serve that rendering at the joined path
	type ui struct{ fn, optsT, pathField string }
	uis := []ui{
		{"rt/middleware.Redoc", "rt/middleware.RedocOpts", ""},
		{"rt/middleware.RapiDoc", "rt/middleware.RapiDocOpts", ""},
		{"rt/middleware.SwaggerUI", "rt/middleware.SwaggerUIOpts", ""},
		{"rt/middleware.SwaggerUIOAuth2Callback", "rt/middleware.SwaggerUIOpts", "OAuthCallbackURL"},
	}
	for _, u := range uis {
		f := p.Fn(u.fn)
		serve := callsIn(f, "rt/middleware.serveUI")
		exec := callsIn(f, "(*html/template.Template).Execute", "(*text/template.Template).Execute")
		c.obRF("R20.1", f, "renders-and-serves", len(serve) == 1 && len(exec) == 1, "the UI constructor renders its page once and installs serveUI", fmt.Sprintf("%d serveUI, %d Execute", len(serve), len(exec)))
		if len(serve) != 1 || len(exec) != 1 {
			continue
		}
		sv := serve[0].(*ssa.Call)
		suFn := p.Fn("rt/middleware.serveUI")
		uiP, uiA, uiN := paramIndexOfType(suFn, "string", 0), paramIndexOfType(suFn, "[]byte", 1), paramIndexOfType(suFn, "net/http.Handler", 2)
		ex := exec[0].(*ssa.Call)
		var okPath bool
		if u.pathField == "" {
			isJoin := oCallWhere(-1, "path.Join", func(j *ssa.Call) bool {
				elems, okk := sliceLitElems(j.Call.Args[0])
				return okk && len(elems) == 2 && vFieldLoadO(u.optsT, "BasePath")(elems[0]) && vFieldLoadO(u.optsT, "Path")(elems[1])
			})
			okPath, _ = allOrigins(sv.Call.Args[uiP], isJoin)
			if !okPath {
				// a defensive "/" when the joined path came out empty (it cannot: the base path is never empty)
				if phi, isPhi := sv.Call.Args[uiP].(*ssa.Phi); isPhi {
					okPath = true
					nJoin := 0
					for i, e := range phi.Edges {
						if okJ, _ := allOrigins(e, isJoin); okJ {
							nJoin++
							continue
						}
						k, isK := constString(e)
						if !isK || k != "/" || !edgeGuarded(phi.Block().Preds[i], phi.Block(), nil, factEqString(vOrigins(isJoin), "", true)) {
							okPath = false
						}
					}
					okPath = okPath && nJoin > 0
				}
			}
		} else {
			okPath = vFieldLoadO(u.optsT, u.pathField)(sv.Call.Args[uiP])
			if !okPath {
				// a defensive recomputation when the configured value came out empty (it cannot: the defaulting fills it)
				if phi, isPhi := sv.Call.Args[uiP].(*ssa.Phi); isPhi {
					okPath = true
					nCfg := 0
					for i, e := range phi.Edges {
						if vFieldLoadO(u.optsT, u.pathField)(e) {
							nCfg++
							continue
						}
						if !edgeGuarded(phi.Block().Preds[i], phi.Block(), nil, factEqString(vFieldLoadO(u.optsT, u.pathField), "", true)) {
							okPath = false
						}
					}
					okPath = okPath && nCfg > 0
				}
			}
		}
		c.obI("R20.1", sv, "ui-path", okPath, "the page is served at path.Join(opts.BasePath, opts.Path) (the OAuth2 callback at opts.OAuthCallbackURL)", "path argument "+describe(sv.Call.Args[uiP]))
		// assets = buffer written by Execute
		_, eargs := callArgs(&ex.Call)
		okAssets, _ := allOrigins(sv.Call.Args[uiA], oCallWhere(-1, "(*bytes.Buffer).Bytes", func(b *ssa.Call) bool {
			for _, o := range originsOf(b.Call.Args[0]) {
				for _, o2 := range originsOf(eargs[0]) {
					if o.V == o2.V {
						return true
					}
				}
			}
			return false
		}))
		if !okAssets {
			// the rendered buffer itself may be handed over (its Bytes() being taken by the serving side at construction)
			okAssets = sameOrigins(unboxed(sv.Call.Args[uiA]), unboxed(eargs[0]))
		}
		// the buffer rendered into belongs to this construction alone (never a pooled / shared buffer whose bytes a later
		// construction would overwrite under the handler that keeps serving them)
		okPriv, badPriv := allOrigins(eargs[0], oCall(-1, "bytes.NewBuffer"), func(o Origin) bool {
			al, isAl := o.V.(*ssa.Alloc)
			if !isAl {
				return false
			}
			n, _ := structOf(al.Type())
			return n != nil && typeFullName(n) == "bytes.Buffer"
		})
		c.obI("R20.1", ex, "rendering-buffer-private", okPriv, "the page is rendered into a buffer created by this very construction", "origin "+describeOrigin(badPriv))
		c.obI("R20.1", sv, "ui-serves-the-rendering", okAssets && dominates(ex, sv), "serveUI serves the bytes rendered by the template at construction time", "assets argument is not the buffer Execute wrote")
		okNext, _ := allOrigins(sv.Call.Args[uiN], oIsValue(f.Params[1]))
		c.obI("R20.1", sv, "ui-next", okNext, "the UI middleware forwards to the handler it was given", "")
		// the data executed is the options struct after EnsureDefaults
		ed := callsIn(f, "(*"+u.optsT+").EnsureDefaults", "(*"+u.optsT+").EnsureDefaultsOauth2")
		okData := false
		dv := eargs[1]
		// (when the rendering moved into a helper, the data is the helper's parameter: take this constructor's argument)
		for _, site := range callSitesUnder(f, "(*html/template.Template).Execute", "(*text/template.Template).Execute") {
			site.at(func() {
				for i := 0; i < 4; i++ {
					if prm, isP := dv.(*ssa.Parameter); isP {
						if b, bound := paramEnv[prm]; bound {
							dv = b
							continue
						}
					}
					break
				}
			})
		}
		if mi, ok := dv.(*ssa.MakeInterface); ok {
			dv = mi.X
		}
		if ld, ok := dv.(*ssa.UnOp); ok && ld.Op == token.MUL && len(ed) == 1 {
			if al, isA := ld.X.(*ssa.Alloc); isA && typeStr(ld.Type()) == u.optsT {
				recv, _ := callArgs(ed[0].Common())
				okData = recv == ssa.Value(al) && dominates(ed[0], ld)
			}
		}
		c.obI("R20.1", ex, "ui-executes-with-options", okData && len(ed) == 1 && !pathExistsUnder(f, nil, ex, nil, isOneOf(ed[0])), "the template is executed with the options after their defaults were ensured", "")
	}

	// R20.2 html/template only
	nExec := 0
	for _, fn := range p.LibFuncs("rt/middleware") {
		for _, ci := range allCalls(fn) {
			name := calleeName(ci.Common())
			if strings.HasSuffix(name, "template.Template).Execute") || strings.HasSuffix(name, "template.Template).ExecuteTemplate") {
				nExec++
				c.obI("R20.2", ci, "html-template", strings.HasPrefix(name, "(*html/template.Template)"), "every template executed by package middleware is an html/template.Template (option values are HTML-escaped)", "executes "+name)
			}
		}
	}
	c.min("R20.2", 4)

	// R20.3 uiOptionsForHandler
	uf := p.Fn("(rt/middleware.Context).uiOptionsForHandler")
	splits := callsIn(uf, "path.Split")
	parses := callsIn(uf, "net/url.Parse", "net/url.ParseRequestURI")
	for _, pc := range parses {
		// the browser resolves the SpecURL the page carries as a URL REFERENCE (a '#fragment' is split off):
		// url.Parse does the same, url.ParseRequestURI keeps the fragment in the path
		c.definite = true
		c.obI("R20.3", pc, "SpecURL-parsed-as-reference", calleeName(pc.Common()) == "net/url.Parse", "the SpecURL is parsed with url.Parse (fragment and query split off the path, as the browser will do)", "parsed with "+calleeName(pc.Common()))
		c.definite = false
	}
	c.obRF("R20.3", uf, "derives-spec-route", len(splits) == 1 && len(parses) == 1, "the spec route is derived by path.Split from the parsed SpecURL", fmt.Sprintf("%d Split, %d Parse", len(splits), len(parses)))
	if len(splits) == 1 && len(parses) == 1 {
		sp := splits[0].(*ssa.Call)
		pr := parses[0].(*ssa.Call)
		u := resultOf(pr, 0)
		okArg := vFieldLoadO("rt/middleware.uiOptions", "SpecURL")(pr.Call.Args[0])
		c.obI("R20.3", pr, "parses-SpecURL", okArg, "the URL parsed is the UI's SpecURL", "argument "+describe(pr.Call.Args[0]))
		// the argument of Split is u.Path whenever u != nil
		arg := sp.Call.Args[0]
		ok, bad := allOrigins(arg, oConstString(""), oFieldLoad("net/url.URL", "Path", vOrigins(oIsValue(u))))
		why := "origin " + describeOrigin(bad)
		if ok {
			if phi, isPhi := arg.(*ssa.Phi); isPhi {
				for i, e := range phi.Edges {
					if s, isC := constString(e); isC && s == "" {
						if !edgeGuarded(phi.Block().Preds[i], phi.Block(), pr, factNil(vIs(u), true)) {
							ok, why = false, "the spec path stays empty for a SpecURL that did parse (the UI would reference a location where the spec is not served)"
						}
					}
				}
			} else if _, isC := constString(arg); isC {
				ok, why = false, "the spec path is never taken from SpecURL"
			}
		}
		c.obI("R20.3", sp, "spec-path-from-SpecURL", ok, "for every SpecURL that parses (absolute URL, absolute or relative path) the spec route is the URL's path", why)
		// results
		c.obRF("R20.3", uf, "returns-path-options-specoptions", uf.Signature.Results().Len() == 3, "uiOptionsForHandler returns (spec base path, UI options, spec options)", fmt.Sprintf("%d results", uf.Signature.Results().Len()))
		for _, r := range returnsOf(uf) {
			if len(r.Results) != 3 {
				continue
			}
			okP, _ := allOrigins(r.Results[0], oCall(0, "path.Split"), oConstString(""))
			c.obI("R20.3", r, "returns-split-dir", okP, "the spec base path returned is the directory part of the SpecURL path", "")
			// uiOpts returned are the ones carrying SpecURL
			okDoc := false
			if elems, isLit := sliceLitElems(r.Results[2]); isLit && len(elems) == 1 {
				okDoc, _ = allOrigins(elems[0], oCallWhere(-1, "rt/middleware.WithSpecDocument", func(w *ssa.Call) bool {
					okk, _ := allOrigins(w.Call.Args[0], oCall(1, "path.Split"))
					if !okk {
						// an exit taken only for a SpecURL that does not parse: the empty document name is what
						// path.Split("") yields
						if s, isC := constString(w.Call.Args[0]); isC && s == "" && guardedBy(r, pr, factNil(vIs(u), true)) {
							okk = true
						}
						// … or a merge that is empty only on the edge taken when the SpecURL did not parse
						if phi, isPhi := w.Call.Args[0].(*ssa.Phi); isPhi {
							okk = true
							for i, e := range phi.Edges {
								if s, isC := constString(e); isC && s == "" && edgeGuarded(phi.Block().Preds[i], phi.Block(), pr, factNil(vIs(u), true)) {
									continue
								}
								if okE, _ := allOrigins(e, oCall(1, "path.Split")); okE {
									continue
								}
								okk = false
							}
						}
					}
					return okk
				}))
			}
			if !okDoc {
				// the option left out when there is no document name (WithSpecDocument("") is a no-op, checked below): the
				// slice is nil on the paths where doc == "" and append(…, WithSpecDocument(doc)) otherwise
				isDoc := vOrigins(oCall(1, "path.Split"))
				var judge func(v ssa.Value, pred, blk *ssa.BasicBlock, d int) bool
				judge = func(v ssa.Value, pred, blk *ssa.BasicBlock, d int) bool {
					if phi, isPhi := v.(*ssa.Phi); isPhi && d < 3 {
						for i, e := range phi.Edges {
							if !judge(e, phi.Block().Preds[i], phi.Block(), d+1) {
								return false
							}
						}
						return true
					}
					if isNilConst(v) {
						return pred != nil && edgeGuarded(pred, blk, pr, factEqString(isDoc, "", true))
					}
					ap := asCall(v)
					if ap == nil || calleeName(&ap.Call) != "builtin append" {
						return false
					}
					elems, isLit := sliceLitElems(ap.Call.Args[1])
					if !isLit || len(elems) != 1 {
						return false
					}
					okW, _ := allOrigins(elems[0], oCallWhere(-1, "rt/middleware.WithSpecDocument", func(w *ssa.Call) bool { return isDoc(w.Call.Args[0]) }))
					okBase, _ := allOrigins(ap.Call.Args[0], oNil())
					return okW && okBase
				}
				if judge(r.Results[2], nil, nil, 0) {
					// premise: WithSpecDocument("") changes nothing
					noop := false
					for _, lit := range anonFuncsDeep(p.Fn("rt/middleware.WithSpecDocument")) {
						for _, st := range fieldStores(lit, "rt/middleware.specOptions", "Document") {
							noop = guardedBy(st, nil, factEqString(func(v ssa.Value) bool { return true }, "", false))
						}
					}
					okDoc = noop
				}
			}
			c.obI("R20.3", r, "returns-doc-option", okDoc, "the spec option returned names the document part of the SpecURL path", "")
		}
	}
	type flavour struct{ fn, uiFn string }
	for _, fl := range []flavour{
		{"(*rt/middleware.Context).APIHandler", "rt/middleware.Redoc"},
		{"(*rt/middleware.Context).APIHandlerRapiDoc", "rt/middleware.RapiDoc"},
		{"(*rt/middleware.Context).APIHandlerSwaggerUI", "rt/middleware.SwaggerUI"},
	} {
		f := p.Fn(fl.fn)
		specs := callsIn(f, "rt/middleware.Spec")
		c.obRF("R20.3", f, "installs-Spec", len(specs) == 1, "the API handler installs the Spec middleware", "")
		if len(specs) != 1 {
			continue
		}
		s := specs[0].(*ssa.Call)
		ok0, _ := allOrigins(s.Call.Args[0], oCall(0, "(rt/middleware.Context).uiOptionsForHandler"))
		ok1, _ := allOrigins(s.Call.Args[1], oCall(-1, "(*github.com/go-openapi/loads.Document).Raw"))
		ok2, _ := allOrigins(s.Call.Args[2], oCallWhere(-1, fl.uiFn, func(uc *ssa.Call) bool {
			okR, _ := allOrigins(uc.Call.Args[1], oCall(-1, "(*rt/middleware.Context).RoutesHandler"))
			// the UI options come from the common options returned by uiOptionsForHandler
			return okR
		}))
		ok3, _ := allOrigins(s.Call.Args[3], oCall(2, "(rt/middleware.Context).uiOptionsForHandler"))
		c.obI("R20.3", s, "wiring", ok0 && ok1 && ok2 && ok3, "Spec(specPath, c.spec.Raw(), <UI>(opts, c.RoutesHandler(b)), specOpts...) with specPath/specOpts from uiOptionsForHandler", fmt.Sprintf("specPath:%v raw:%v ui+routes:%v specOpts:%v", ok0, ok1, ok2, ok3))
		conv := 0
		for _, ci := range allCalls(f) {
			if strings.HasPrefix(calleeName(ci.Common()), "rt/middleware.fromCommonToAnyOptions") {
				conv++
				okC, _ := allOrigins(ci.Common().Args[0], oCall(1, "(rt/middleware.Context).uiOptionsForHandler"))
				c.obI("R20.3", ci, "ui-options-from-common", okC, "the UI is configured from the same common options (same SpecURL) the spec route was derived from", "")
			}
		}
		c.obRF("R20.3", f, "converts-options", conv == 1, "the common UI options are converted for the UI flavour", fmt.Sprintf("%d conversions", conv))
	}

	// the UI path and the spec sub-path are kept as configured: set from an option argument, copied from another options
	// struct or defaulted — never trimmed, cleaned or otherwise rewritten when stored (a path of "/" is a path: the
	// document is then served at the base path itself; rewriting it to "" makes the default "docs" take its place)
	for _, fn := range p.LibFuncs("rt/middleware") {
		for _, in := range ownInstrs(fn) {
			st, ok := in.(*ssa.Store)
			if !ok {
				continue
			}
			_, _, immT, field := chainRoot(st.Addr)
			if immT == nil || field != "Path" {
				continue
			}
			switch typeFullName(immT) {
			case "rt/middleware.uiOptions", "rt/middleware.specOptions", "rt/middleware.RedocOpts", "rt/middleware.RapiDocOpts", "rt/middleware.SwaggerUIOpts":
			default:
				continue
			}
			okV, bad := allOrigins(st.Val, oConstString(), func(o Origin) bool { _, isP := o.V.(*ssa.Parameter); return isP }, func(o Origin) bool {
				ld, isLd := derefLoad(o.V)
				if !isLd {
					return false
				}
				_, _, t2, f2 := chainRoot(ld)
				return t2 != nil && f2 == "Path"
			})
			rewritten := false
			if bad != nil {
				if call := asCall(bad.V); call != nil {
					n := calleeName(&call.Call)
					rewritten = strings.HasPrefix(n, "strings.") || strings.HasPrefix(n, "path.") || strings.HasPrefix(n, "path/filepath.")
				}
			}
			if rewritten {
				c.obD("R20.3", st, "configured-path-stored-verbatim", false, "a configured UI / spec path is stored as given", "the path is stored as "+describeOrigin(bad)+": a path made of slashes only becomes empty and is re-defaulted")
			} else {
				c.obI("R20.3", st, "configured-path-stored-verbatim", okV, "a configured UI / spec path is stored as given (an option argument, a copy, a default)", "origin "+describeOrigin(bad))
			}
		}
	}
	// the SpecURL the page references is the configured one, verbatim: it is only ever set from an option argument,
	// copied from another options struct, or defaulted (a constant, only when it is empty)
	nSU := 0
	for _, fn := range p.LibFuncs("rt/middleware") {
		for _, in := range ownInstrs(fn) {
			st, ok := in.(*ssa.Store)
			if !ok {
				continue
			}
			_, _, immT, field := chainRoot(st.Addr)
			if immT == nil || (field != "SpecURL" && !(field == "Document" && typeFullName(immT) == "rt/middleware.specOptions")) {
				continue
			}
			nSU++
			okV, bad := allOrigins(st.Val, oConstString(), func(o Origin) bool { _, isP := o.V.(*ssa.Parameter); return isP }, func(o Origin) bool {
				ld, isLd := derefLoad(o.V)
				if !isLd {
					return false
				}
				_, _, t2, f2 := chainRoot(ld)
				return t2 != nil && (f2 == "SpecURL" || f2 == field)
			})
			why := "origin " + describeOrigin(bad)
			if okV {
				if _, isK := constString(st.Val); isK && fn.Synthetic == "" {
					fa, _ := st.Addr.(*ssa.FieldAddr)
					isThis := func(v ssa.Value) bool {
						ad, isLd := derefLoad(v)
						if !isLd {
							return false
						}
						fb, isFA := ad.(*ssa.FieldAddr)
						return isFA && fa != nil && fb.Field == fa.Field && fb.X == fa.X
					}
					if !guardedBy(st, nil, factEqString(isThis, "", true)) {
						okV, why = false, "a constant replaces a configured SpecURL"
					}
				}
			}
			c.obI("R20.3", st, field+"-verbatim", okV, "the "+field+" the UI references / the spec is served under is the configured value, verbatim (never rewritten: the spec route and the page are derived from the very same string)", why)
		}
	}
	// the common defaults (base path, path, spec URL, title) are applied on EVERY path of each flavour's defaulting: no
	// "already defaulted" shortcut keyed on flavour-specific fields skips them
	for _, fn := range []string{"(*rt/middleware.RedocOpts).EnsureDefaults", "(*rt/middleware.RapiDocOpts).EnsureDefaults", "(*rt/middleware.SwaggerUIOpts).ensureDefaults"} {
		f := p.Fn(fn)
		commons := callsIn(f, "(*rt/middleware.uiOptions).EnsureDefaults")
		backs := callsIn(f, "rt/middleware.fromCommonToAnyOptions")
		c.obRF("R20.3", f, "applies-common-defaults", len(commons) >= 1 && len(backs) >= 1, "the flavour's defaulting applies the common UI defaults and copies them back", fmt.Sprintf("%d/%d", len(commons), len(backs)))
		if len(commons) == 0 || len(backs) == 0 {
			continue
		}
		var both []ssa.Instruction
		for _, b := range backs {
			both = append(both, b)
		}
		for _, r := range realReturns(f) {
			c.obI("R20.3", r, "common-defaults-on-every-path", !pathExists(f, nil, r, nil, isOneOf(both...)), "every exit of the flavour's defaulting lies behind the common defaults having been applied and copied back", "the defaulting can return without the common defaults (path, spec URL, title …)")
		}
	}
	// copying the common options back into a flavour's options touches the common fields only: the decoder writes INTO
	// the target (gob leaves the fields it does not transmit alone), the target is never replaced by a fresh value — the
	// flavour's own settings (OAuth callback URL, asset URLs, templates) survive the defaulting
	{
		nDec := 0
		for _, fn := range p.LibFuncs("rt/middleware") {
			if fnName(fn) != "rt/middleware.fromCommonToAnyOptions" || len(fn.Blocks) == 0 || len(fn.Params) != 2 {
				continue
			}
			target := fn.Params[1]
			for _, ci := range callsIn(fn, "(*encoding/gob.Decoder).Decode") {
				_, a := callArgs(ci.Common())
				okT, bad := allOrigins(unboxed(a[0]), oIsValue(target))
				nDec++
				c.obI("R20.3", ci, "common-options-decoded-into-target", okT, "the common UI options are decoded into the flavour's own options value, in place", "decoded into "+describeOrigin(bad)+": the flavour-specific fields of the target are lost")
			}
			for _, in := range instrs(fn) {
				if st, ok := in.(*ssa.Store); ok && st.Addr == ssa.Value(target) {
					c.obD("R20.3", st, "target-options-not-replaced", false, "the flavour's options value is never overwritten as a whole when the common options are copied in", "*target is assigned a whole new value: every flavour-specific setting (OAuth callback URL, asset URLs …) is wiped")
				}
			}
		}
		c.obRF("R20.3", p.Fn("(*rt/middleware.uiOptions).EnsureDefaults"), "options-copied-by-decoding", nDec >= 1, "the common options are copied into a flavour's options by decoding", "")
	}
	c.obRF("R20.3", p.Fn("(*rt/middleware.uiOptions).EnsureDefaults"), "SpecURL-writers", nSU >= 2, "writers of SpecURL found (option setter and default)", fmt.Sprintf("%d", nSU))
	// the UI base path is only ever set through WithUIBasePath (which makes it absolute) or defaulted to "/": the
	// documentation path built from it can then be equal to a cleaned request path
	nBP := 0
	for _, fn := range p.LibFuncs("rt/middleware") {
		for _, st := range fieldStores(fn, "rt/middleware.uiOptions", "BasePath") {
			if st.Parent() != fn {
				continue
			}
			nBP++
			okW := false
			root := fn
			for root.Parent() != nil {
				root = root.Parent()
			}
			switch {
			case fnName(root) == "rt/middleware.WithUIBasePath":
				okW = true
			default:
				// a constant absolute default
				if k, isK := constString(st.Val); isK && strings.HasPrefix(k, "/") {
					okW = true
				}
			}
			c.obI("R20.3", st, "ui-base-path-made-absolute", okW, "uiOptions.BasePath is written only by WithUIBasePath (which prefixes a missing '/') or with a constant absolute default", "uiOptions.BasePath is assigned in "+fnName(fn)+" without the leading-slash normalisation")
		}
	}
	c.obRF("R20.3", p.Fn("rt/middleware.WithUIBasePath"), "ui-base-path-writers", nBP >= 2, "the UI base path has its setter and its default", fmt.Sprintf("%d writers", nBP))

	// R20.4 template fields exist
	mw := p.TypesPkg("rt/middleware")
	for _, t := range []struct{ constName, optsT string }{
		{"redocTemplate", "RedocOpts"}, {"rapidocTemplate", "RapiDocOpts"}, {"swaggeruiTemplate", "SwaggerUIOpts"}, {"swaggerOAuthTemplate", "SwaggerUIOpts"},
	} {
		co, ok := mw.Scope().Lookup(t.constName).(*types.Const)
		if !ok || co.Val().Kind() != constant.String {
			fatalf("anchor constant rt/middleware.%s not found", t.constName)
		}
		text := constant.StringVal(co.Val())
		trees, err := parse.Parse(t.constName, text, "{{", "}}", map[string]interface{}{})
		if err != nil {
			c.ob("R20.4", t.constName, "parses", p.Pos(co.Pos()), false, "the built-in template parses", err.Error())
			continue
		}
		fields := map[string]bool{}
		for _, tr := range trees {
			collectFields(tr.Root, fields)
		}
		st := p.Named("rt/middleware", t.optsT).Underlying().(*types.Struct)
		have := map[string]bool{}
		for i := 0; i < st.NumFields(); i++ {
			have[st.Field(i).Name()] = true
		}
		var names []string
		for n := range fields {
			names = append(names, n)
		}
		sort.Strings(names)
		for _, n := range names {
			c.ob("R20.4", t.constName, "field-"+n, p.Pos(co.Pos()), have[n], "every field referenced by the built-in template exists in "+t.optsT, "field ."+n+" is not a field of "+t.optsT)
		}
	}
	c.min("R20.4", 8)
}

func collectFields(n parse.Node, out map[string]bool) {
	switch x := n.(type) {
	case *parse.ListNode:
		if x == nil {
			return
		}
		for _, c := range x.Nodes {
			collectFields(c, out)
		}
	case *parse.ActionNode:
		collectFields(x.Pipe, out)
	case *parse.PipeNode:
		if x == nil {
			return
		}
		for _, c := range x.Cmds {
			collectFields(c, out)
		}
	case *parse.CommandNode:
		for _, a := range x.Args {
			collectFields(a, out)
		}
	case *parse.FieldNode:
		if len(x.Ident) > 0 {
			out[x.Ident[0]] = true
		}
	case *parse.IfNode:
		collectFields(x.Pipe, out)
		collectFields(x.List, out)
		collectFields(x.ElseList, out)
	case *parse.RangeNode:
		collectFields(x.Pipe, out)
		collectFields(x.List, out)
		collectFields(x.ElseList, out)
	case *parse.WithNode:
		collectFields(x.Pipe, out)
		collectFields(x.List, out)
		collectFields(x.ElseList, out)
	}
}

// rootedAt reports whether an address is derived (through field/index addressing and loads) from base.
func rootedAt(addr ssa.Value, base ssa.Value) bool {
	for i := 0; i < 16; i++ {
		if addr == base {
			return true
		}
		switch x := addr.(type) {
		case *ssa.FieldAddr:
			addr = x.X
		case *ssa.IndexAddr:
			addr = x.X
		case *ssa.UnOp:
			if x.Op != token.MUL {
				return false
			}
			addr = x.X
		case *ssa.Field:
			addr = x.X
		default:
			for _, o := range originsOf(addr) {
				if o.V == base {
					return true
				}
			}
			return false
		}
	}
	return false
}

// specOptionFieldIndex: v is (on every origin) a read of one field of specOptions; it returns that field's index.
func specOptionFieldIndex(v ssa.Value) (int, bool) {
	idx := -1
	for _, o := range originsOf(v) {
		ad, ok := derefLoad(o.V)
		if !ok {
			return 0, false
		}
		fa, ok := ad.(*ssa.FieldAddr)
		if !ok {
			return 0, false
		}
		n, _ := structOf(fa.X.Type())
		if n == nil || typeFullName(n) != "rt/middleware.specOptions" {
			return 0, false
		}
		if idx >= 0 && idx != fa.Field {
			return 0, false
		}
		idx = fa.Field
	}
	return idx, idx >= 0
}

// roleParam: the one parameter of fn with the given type (roles are told by type, so that a reordered signature is
// the same function); the positional default when the type is absent or occurs more than once.
func roleParam(fn *ssa.Function, typ string, def int) *ssa.Parameter {
	return fn.Params[paramIndexOfType(fn, typ, def)]
}

func paramIndexOfType(fn *ssa.Function, typ string, def int) int {
	idx, n := def, 0
	for i, prm := range fn.Params {
		if typeStr(prm.Type()) == typ {
			idx = i
			n++
		}
	}
	if n != 1 {
		return def
	}
	return idx
}
