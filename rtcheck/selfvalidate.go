package main

// Checker self-validation (thorough tier): every stored mutant patch is applied to a scratch copy of the repository
// (outside /repo and /verif, removed immediately), the mutated tree is ANALYSED (never executed) with the same rules,
// and the run must report a violation. A mutant that no longer applies, does not type-check, or is not reported is
// a checker error (exit 2), never a silent pass.

import (
	"fmt"
	"os"
	"os/exec"
	"path/filepath"
	"strings"
)

func selfValidate(p *Property, repo, verif string) []map[string]interface{} {
	var report []map[string]interface{}
	dir := filepath.Join(verif, "mutants")
	ents, err := os.ReadDir(dir)
	if err != nil {
		return report
	}
	var patches []string
	for _, e := range ents {
		if strings.HasPrefix(e.Name(), p.ID+"-") && strings.HasSuffix(e.Name(), ".patch") {
			patches = append(patches, e.Name())
		}
	}
	for _, name := range patches {
		patch := filepath.Join(dir, name)
		scratch, err := os.MkdirTemp("", "rtcheck-mutant-")
		if err != nil {
			fatalf("self-validation: %v", err)
		}
		func() {
			defer os.RemoveAll(scratch)
			// copy the working tree (tracked and untracked source files, no .git)
			cp := exec.Command("rsync", "-a", "--exclude", ".git", repo+"/", scratch+"/")
			if out, err := cp.CombinedOutput(); err != nil {
				fatalf("self-validation: copying the tree: %v\n%s", err, out)
			}
			ap := exec.Command("patch", "-p1", "-s", "-i", patch)
			ap.Dir = scratch
			if out, err := ap.CombinedOutput(); err != nil {
				fatalf("self-validation: mutant %s no longer applies to the current tree (checker error, refresh the mutant): %v\n%s", name, err, out)
			}
			prog := Load(LoadConfig{Dir: scratch})
			c := &Ctx{P: prog, Property: p.ID, Tier: "thorough"}
			p.Run(c)
			var failed []string
			for _, o := range c.Obs {
				if !o.OK {
					failed = append(failed, o.Key)
				}
			}
			known := loadKnown(verif)
			kk := map[string]bool{}
			for _, k := range known.Findings {
				if k.Property == p.ID {
					kk[k.Key] = true
				}
			}
			var fresh []string
			for _, k := range failed {
				if !kk[k] {
					fresh = append(fresh, k)
				}
			}
			if len(fresh) == 0 {
				fatalf("self-validation: mutant %s is NOT reported by the rules of %s (checker error)", name, p.ID)
			}
			report = append(report, map[string]interface{}{"mutant": name, "reported": fresh})
			fmt.Printf("  self-validation: mutant %-45s reported by %s\n", name, strings.Join(fresh, ", "))
		}()
	}
	return report
}
