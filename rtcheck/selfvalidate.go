package main

// Checker self-validation (thorough tier): every stored mutant patch is applied to a scratch copy of the repository
// (outside /repo and /verif, removed immediately), the mutated tree is ANALYSED (never executed) with the same rules,
// and the run must report a violation. A mutant that no longer applies, does not type-check, or is not reported is
// a checker error (exit 2), never a silent pass.

import (
	"encoding/json"
	"fmt"
	"os"
	"os/exec"
	"path/filepath"
	"strings"
)

func selfValidate(p *Property, repo, verif string) []map[string]interface{} {
	var report []map[string]interface{}
	var patches []string
	if ents, err := os.ReadDir(filepath.Join(verif, "mutants")); err == nil {
		for _, e := range ents {
			if strings.HasPrefix(e.Name(), p.ID+"-") && strings.HasSuffix(e.Name(), ".patch") {
				patches = append(patches, filepath.Join(verif, "mutants", e.Name()))
			}
		}
	}
	if ents, err := os.ReadDir(filepath.Join(verif, "seeded")); err == nil {
		for _, e := range ents {
			if strings.HasPrefix(e.Name(), p.ID+"-") && e.IsDir() {
				pf := filepath.Join(verif, "seeded", e.Name(), "patch.diff")
				if _, err := os.Stat(pf); err == nil {
					patches = append(patches, pf)
				}
			}
		}
	}
	// changes that are known NOT to be reported (they break the property through a clause the rules do not decide);
	// each is listed with its reason in seeded/UNDETECTED.json and in DESIGN.md
	undetected := map[string]string{}
	if b, err := os.ReadFile(filepath.Join(verif, "seeded", "UNDETECTED.json")); err == nil {
		var lst []struct{ Name, Reason string }
		if err := json.Unmarshal(b, &lst); err != nil {
			fatalf("self-validation: seeded/UNDETECTED.json: %v", err)
		}
		for _, e := range lst {
			undetected[e.Name] = e.Reason
		}
	}
	known := loadKnown(verif)
	kk := map[string]bool{}
	for _, k := range known.Findings {
		if k.Property == p.ID {
			kk[normKey(k.Key)] = true
		}
	}
	applied := 0
	for _, patch := range patches {
		name := strings.TrimPrefix(patch, verif+"/")
		scratch, err := os.MkdirTemp("", "rtcheck-mutant-")
		if err != nil {
			fatalf("self-validation: %v", err)
		}
		func() {
			defer os.RemoveAll(scratch)
			// copy the working tree (tracked and untracked source files, no .git)
			cp := exec.Command("rsync", "-a", "--exclude", ".git", repo+"/", scratch+"/")
			if out, err := cp.CombinedOutput(); err != nil {
				fatalf("self-validation: copying the tree: %v\n%s", err, out)
			}
			ap := exec.Command("patch", "-p1", "-s", "-f", "-i", patch)
			ap.Dir = scratch
			if out, err := ap.CombinedOutput(); err != nil {
				// the analysed tree differs from the one the mutant was written against: not a verdict on anything
				report = append(report, map[string]interface{}{"mutant": name, "status": "skipped: does not apply to the analysed tree", "detail": strings.TrimSpace(string(out))})
				fmt.Printf("  self-validation: mutant %-60s skipped (does not apply to this tree)\n", name)
				return
			}
			applied++
			prog := Load(LoadConfig{Dir: scratch})
			c := &Ctx{P: prog, Property: p.ID, Tier: "thorough"}
			// (an anchor the rules cannot resolve on the changed tree is the UNDECIDED answer, not a crash of this run)
			anchorLost := ""
			func() {
				defer func() {
					if r := recover(); r != nil {
						te, isTE := r.(toolError)
						if !isTE {
							panic(r)
						}
						anchorLost = te.msg
					}
				}()
				p.Run(c)
			}()
			if anchorLost != "" {
				seedName := filepath.Base(filepath.Dir(patch))
				if why, listed := undetected[seedName]; listed {
					report = append(report, map[string]interface{}{"mutant": name, "status": "not decided: an anchor of the rules does not resolve (listed in seeded/UNDETECTED.json)", "reason": why})
					fmt.Printf("  self-validation: mutant %-60s NOT decided (anchor) — listed\n", name)
					applied--
					return
				}
				fatalf("self-validation: mutant %s: %s", name, anchorLost)
			}
			var fresh []string
			for _, o := range c.Obs {
				if !o.OK && !o.Recog && !kk[normKey(o.Key)] && !(o.AltKey != "" && kk[o.AltKey]) {
					fresh = append(fresh, o.Key)
				}
			}
			seedName := filepath.Base(filepath.Dir(patch))
			if len(fresh) == 0 {
				if why, listed := undetected[seedName]; listed {
					report = append(report, map[string]interface{}{"mutant": name, "status": "not reported (listed in seeded/UNDETECTED.json)", "reason": why})
					fmt.Printf("  self-validation: mutant %-60s NOT reported — listed as outside the decided clauses\n", name)
					applied--
					return
				}
				fatalf("self-validation: mutant %s applies but is NOT reported by the rules of %s (checker error)", name, p.ID)
			}
			if _, listed := undetected[seedName]; listed {
				fatalf("self-validation: mutant %s is listed in seeded/UNDETECTED.json but IS reported now: remove it from the list", name)
			}
			if len(fresh) > 4 {
				fresh = fresh[:4]
			}
			report = append(report, map[string]interface{}{"mutant": name, "status": "reported", "by": fresh})
			fmt.Printf("  self-validation: mutant %-60s reported by %s\n", name, fresh[0])
		}()
	}
	fmt.Printf("  self-validation: %d mutants applied and reported, %d skipped\n", applied, len(patches)-applied)
	return report
}
