package main

// Virtual inlining of helper functions.
//
// The rules are anchored in the functions of the baseline tree (inventory_gen.go lists them). A function of the
// analysed tree that is NOT in that inventory — a helper extracted by a refactoring, a renamed wrapper — is treated
// as *transparent*: instruction enumeration, path queries and value provenance look through calls to it as if its
// body stood at the call site (context-sensitively, depth-bounded, recursion excluded). On the baseline tree nothing
// is transparent, so verdicts there do not depend on this machinery.

import (
	"fmt"
	"go/constant"
	"go/token"
	"go/types"
	"os"
	"sort"
	"strings"

	"golang.org/x/tools/go/ssa"
)

var curProg *Prog

type transInfo struct {
	transparent map[*ssa.Function]bool
	callers     map[*ssa.Function][]ssa.CallInstruction // static call sites (Call only; not go/defer) in library code
	delegate    map[string]*ssa.Function                // baseline name -> the new function its body was moved into
	recvIsParam map[*ssa.Function]bool                  // delegate methods whose receiver is the baseline function's first parameter
	deepCache   map[*ssa.Function][]ssa.Instruction
	alias       map[*ssa.Function]string // a baseline function that was re-signed (method <-> function): its baseline name
	byOldName   map[string]*ssa.Function // baseline name -> the function that carries it now (renamed / re-signed)
}

func (p *Prog) initTransparency() {
	ti := &transInfo{recvIsParam: map[*ssa.Function]bool{}, delegate: map[string]*ssa.Function{}, byOldName: map[string]*ssa.Function{}, alias: map[*ssa.Function]string{}, transparent: map[*ssa.Function]bool{}, callers: map[*ssa.Function][]ssa.CallInstruction{}, deepCache: map[*ssa.Function][]ssa.Instruction{}}
	p.ti = ti
	lib := p.LibFuncs()
	for _, f := range lib {
		for _, b := range f.Blocks {
			for _, in := range b.Instrs {
				if c, ok := in.(*ssa.Call); ok {
					if callee := c.Call.StaticCallee(); callee != nil && callee.Blocks != nil {
						ti.callers[callee] = append(ti.callers[callee], c)
					}
				}
			}
		}
	}
	if len(inventory) == 0 {
		return // no inventory: nothing is transparent
	}
	// a baseline function that merely changed its receiver/signature keeps its role as an anchor
	invBase := map[string]bool{}
	for n := range inventory {
		if strings.Contains(n, "$") {
			continue
		}
		pkg := n
		pkg = strings.TrimPrefix(pkg, "(")
		pkg = strings.TrimPrefix(pkg, "*")
		if i := strings.Index(pkg, ")"); i >= 0 {
			pkg = pkg[:i]
		}
		if i := strings.LastIndex(pkg, "."); i >= 0 {
			pkg = pkg[:i]
		}
		invBase[pkg+"."+baseName(n)] = true
	}
	// renamed baseline functions: a baseline name that is gone, and exactly one new function of the same package with
	// the same flattened signature (receiver counted as first parameter)
	pkgOf := func(n string) string {
		pkg := strings.TrimPrefix(strings.TrimPrefix(n, "("), "*")
		if i := strings.Index(pkg, ")"); i >= 0 {
			pkg = pkg[:i]
		}
		if i := strings.LastIndex(pkg, "."); i >= 0 {
			pkg = pkg[:i]
		}
		return pkg
	}
	{
		var fresh []*ssa.Function
		for _, f := range lib {
			if f.Parent() != nil || f.Synthetic != "" || inventory[short(f.String())] {
				continue
			}
			fresh = append(fresh, f)
		}
		claimed := map[*ssa.Function][]string{}
		// (several functions of one signature renamed at once — expectToken / expectTokenOrQuoted → scanToken /
		// scanTokenOrQuoted: the names decide, by what they still have in common)
		similar := func(a, b string) int {
			a, b = baseName(a), baseName(b)
			n := 0
			for i := 0; i < len(a) && i < len(b) && a[i] == b[i]; i++ {
				n++
			}
			for i := 1; i <= len(a) && i <= len(b) && a[len(a)-i] == b[len(b)-i]; i++ {
				n++
			}
			return n
		}
		for n, sig := range sigInventory {
			if p.fnIdx[n] != nil {
				continue
			}
			var cs []*ssa.Function
			for _, f := range fresh {
				if short(fnPkgPath(f)) == pkgOf(n) && flatSig(f) == sig {
					cs = append(cs, f)
				}
			}
			if len(cs) > 1 {
				// the one candidate whose name is strictly closest to the vanished name — and for which, in turn, this
				// vanished name is strictly the closest among the vanished names of that signature
				best, bestScore, tie := (*ssa.Function)(nil), -1, false
				for _, f := range cs {
					sc := similar(n, f.Name())
					if sc > bestScore {
						best, bestScore, tie = f, sc, false
					} else if sc == bestScore {
						tie = true
					}
				}
				if best != nil && !tie && bestScore >= 4 {
					mutual := true
					for n2, sig2 := range sigInventory {
						if n2 == n || p.fnIdx[n2] != nil || sig2 != sig || pkgOf(n2) != pkgOf(n) {
							continue
						}
						if similar(n2, best.Name()) >= bestScore {
							mutual = false
						}
					}
					if mutual {
						cs = []*ssa.Function{best}
					}
				}
			}
			if len(cs) == 1 {
				claimed[cs[0]] = append(claimed[cs[0]], n)
			}
		}
		for f, ns := range claimed {
			if os.Getenv("RTDEBUG") != "" {
				fmt.Fprintf(os.Stderr, "alias candidate %s <- %v\n", f, ns)
			}
			if len(ns) == 1 {
				ti.alias[f] = ns[0]
				ti.byOldName[ns[0]] = f
			}
		}
	}
	// a baseline function whose whole body moved into a new function or method and which now only delegates to it
	// (`func TLSClientAuth(o Opts) (*Cfg, error) { return o.clientConfig() }`): the new function IS the anchor
	for _, f := range lib {
		if f.Parent() != nil || f.Synthetic != "" || !inventory[short(f.String())] {
			continue
		}
		g := pureDelegate(f)
		if g == nil || inventory[short(g.String())] {
			continue
		}
		if _, taken := ti.alias[g]; taken {
			continue
		}
		name := short(f.String())
		ti.alias[g] = name
		ti.delegate[name] = g
		if f.Signature.Recv() == nil && g.Signature.Recv() != nil {
			ti.recvIsParam[g] = true // the baseline's first parameter became the receiver
		}
	}
	cand := map[*ssa.Function]bool{}
	for _, f := range lib {
		if f.Parent() != nil || f.Synthetic != "" {
			continue
		}
		if inventory[short(f.String())] {
			// a straight-line accessor the baseline library never called itself (it exists for API users): once library
			// code calls it, the call is looked through like a call to a new helper
			if uncalledInventory[short(f.String())] && len(f.Blocks) == 1 && len(ti.callers[f]) > 0 {
				cand[f] = true
			}
			continue
		}
		if _, renamed := ti.alias[f]; renamed {
			continue
		}
		if invBase[short(fnPkgPath(f))+"."+f.Name()] {
			// which baseline name did it have? (unique, and no longer present under that name)
			var old []string
			for n := range inventory {
				if strings.Contains(n, "$") || baseName(n) != f.Name() || p.fnIdx[n] != nil {
					continue
				}
				pkg := strings.TrimPrefix(strings.TrimPrefix(n, "("), "*")
				if i := strings.Index(pkg, ")"); i >= 0 {
					pkg = pkg[:i]
				}
				if i := strings.LastIndex(pkg, "."); i >= 0 {
					pkg = pkg[:i]
				}
				if pkg == short(fnPkgPath(f)) {
					old = append(old, n)
				}
			}
			if len(old) == 1 {
				ti.alias[f] = old[0]
				ti.byOldName[old[0]] = f
			}
			continue
		}
		if len(ti.callers[f]) == 0 {
			continue
		}
		if f.Object() != nil && f.Object().Exported() && f.Signature.Recv() == nil {
			// a new exported package-level function is API, not a helper; still transparent for analysis purposes
		}
		cand[f] = true
	}
	// a function literal bound to a local of a baseline function that had no literals, only ever called by that name and
	// writing none of the variables it captures (`admits := func(entry string) bool { return contains(allowed, entry) }`)
	// is looked through like a named helper
	for _, f := range lib {
		if f.Parent() == nil || f.Parent().Parent() != nil || len(f.Blocks) == 0 {
			continue
		}
		pn := short(f.Parent().String())
		hadLiterals := false
		for n := range inventory {
			if strings.HasPrefix(n, pn+"$") {
				hadLiterals = true
				break
			}
		}
		// (an immediately invoked literal — `x := func() T { … }()` — is looked through whatever else the function
		// contains: it has no name a rule could anchor on, and exactly one call)
		iife := false
		if cs := localClosureCalls(f); len(cs) == 1 {
			if mc, isMC := cs[0].Call.Value.(*ssa.MakeClosure); isMC && mc.Block() == cs[0].Block() && mc.Referrers() != nil && len(*mc.Referrers()) == 1 {
				iife = true
			}
		}
		if (hadLiterals && !iife) || len(localClosureCalls(f)) == 0 || len(f.AnonFuncs) > 0 {
			continue
		}
		writes := false
		for _, b := range f.Blocks {
			for _, in := range b.Instrs {
				switch x := in.(type) {
				case *ssa.Store:
					if _, isFV := x.Addr.(*ssa.FreeVar); isFV {
						writes = true
					}
				case *ssa.Defer, *ssa.Go, *ssa.Panic:
					writes = true
				}
			}
		}
		if !writes {
			cand[f] = true
		}
	}
	// exclude (mutually) recursive candidates
	var reaches func(from, to *ssa.Function, seen map[*ssa.Function]bool) bool
	reaches = func(from, to *ssa.Function, seen map[*ssa.Function]bool) bool {
		if seen[from] {
			return false
		}
		seen[from] = true
		for _, b := range from.Blocks {
			for _, in := range b.Instrs {
				if c, ok := in.(*ssa.Call); ok {
					if callee := c.Call.StaticCallee(); callee != nil && cand[callee] {
						if callee == to || reaches(callee, to, seen) {
							return true
						}
					}
				}
			}
		}
		return false
	}
	for f := range cand {
		if !reaches(f, f, map[*ssa.Function]bool{}) {
			ti.transparent[f] = true
		}
	}
}

func isTransparent(f *ssa.Function) bool {
	return curProg != nil && curProg.ti != nil && f != nil && curProg.ti.transparent[f]
}

// transparentCallee returns the transparent function a call instruction statically invokes, or nil.
func transparentCallee(in ssa.Instruction) *ssa.Function {
	c, ok := in.(*ssa.Call)
	if !ok {
		return nil
	}
	callee := c.Call.StaticCallee()
	if isTransparent(callee) {
		return callee
	}
	return nil
}

// ownInstrs lists the instructions of f itself.
func ownInstrs(f *ssa.Function) []ssa.Instruction {
	var out []ssa.Instruction
	for _, b := range f.Blocks {
		out = append(out, b.Instrs...)
	}
	return out
}

// instrs lists the instructions of f and, transitively, of the transparent functions it calls.
func instrs(f *ssa.Function) []ssa.Instruction {
	if curProg == nil || curProg.ti == nil || len(curProg.ti.transparent) == 0 {
		return ownInstrs(f)
	}
	if c, ok := curProg.ti.deepCache[f]; ok {
		return c
	}
	seen := map[*ssa.Function]bool{}
	var out []ssa.Instruction
	var walk func(g *ssa.Function, depth int)
	walk = func(g *ssa.Function, depth int) {
		if seen[g] || depth > 4 {
			return
		}
		seen[g] = true
		for _, in := range ownInstrs(g) {
			out = append(out, in)
			if callee := transparentCallee(in); callee != nil {
				walk(callee, depth+1)
			}
		}
	}
	walk(f, 0)
	curProg.ti.deepCache[f] = out
	return out
}

// rootsOf returns the non-transparent functions from which fn is reached through transparent calls (fn itself when it
// is not transparent).
func rootsOf(fn *ssa.Function) []*ssa.Function {
	if !isTransparent(fn) {
		return []*ssa.Function{fn}
	}
	seen := map[*ssa.Function]bool{}
	var out []*ssa.Function
	var up func(g *ssa.Function, depth int)
	up = func(g *ssa.Function, depth int) {
		if seen[g] || depth > 5 {
			return
		}
		seen[g] = true
		if !isTransparent(g) {
			out = append(out, g)
			return
		}
		for _, cs := range curProg.ti.callers[g] {
			up(cs.Parent(), depth+1)
		}
	}
	up(fn, 0)
	sort.Slice(out, func(i, j int) bool { return out[i].String() < out[j].String() })
	return out
}

// ---------- context-sensitive path search over the virtually inlined program ----------

type frame struct {
	fn     *ssa.Function
	site   *ssa.Call // call site in the parent frame (nil for the root)
	parent *frame
	env    map[*ssa.Parameter]ssa.Value
	key    string
}

func newFrame(fn *ssa.Function, site *ssa.Call, parent *frame) *frame {
	fr := &frame{fn: fn, site: site, parent: parent}
	fr.env = map[*ssa.Parameter]ssa.Value{}
	if parent != nil {
		for k, v := range parent.env {
			fr.env[k] = v
		}
		for i, prm := range fn.Params {
			if i < len(site.Call.Args) {
				fr.env[prm] = site.Call.Args[i]
			}
		}
		fr.key = parent.key + ">" + site.Name() + "@" + site.Parent().Name()
	}
	return fr
}

func (fr *frame) depth() int {
	d := 0
	for x := fr; x.parent != nil; x = x.parent {
		d++
	}
	return d
}

func (fr *frame) has(fn *ssa.Function) bool {
	for x := fr; x != nil; x = x.parent {
		if x.fn == fn {
			return true
		}
	}
	return false
}

// framesUnder enumerates the frames of the virtually inlined root.
func framesUnder(root *ssa.Function) []*frame {
	var out []*frame
	var walk func(fr *frame)
	walk = func(fr *frame) {
		out = append(out, fr)
		if fr.depth() >= 4 {
			return
		}
		for _, in := range ownInstrs(fr.fn) {
			if callee := transparentCallee(in); callee != nil && !fr.has(callee) {
				walk(newFrame(callee, in.(*ssa.Call), fr))
			}
		}
	}
	walk(newFrame(root, nil, nil))
	return out
}

type vpoint struct {
	fr   *frame
	blk  *ssa.BasicBlock
	pred *ssa.BasicBlock        // (unused marker kept for symmetry)
	benv map[*ssa.Phi]ssa.Value // the operand each boolean phi took on this path
	bk   string
	idx  int
	ret  map[*ssa.Call]*ssa.Return // path-sensitive: through which return each helper call on this path came back
	rk   string
	denv map[string]bool // outcome, on this path, of each pure condition the function tests more than once
	dk   string
}

// resultEnv says, while a path is being explored, through which of its returns a looked-through helper call came
// back on this path: the provenance of the call's result is then that return's operand only.
var resultEnv map[*ssa.Call]*ssa.Return

// viPathExists is pathExists over the virtually inlined root (see pathExists for the contract).
func viPathExists(root *ssa.Function, from, to ssa.Instruction, cutEdge EdgePred, cutInstr func(ssa.Instruction) bool) bool {
	if len(root.Blocks) == 0 {
		return false
	}
	saved, savedRes := paramEnv, resultEnv
	defer func() { paramEnv, resultEnv, stripEnv = saved, savedRes, nil }()
	seen := map[string]bool{}
	var work []vpoint
	var cur vpoint
	pushR := func(fr *frame, b *ssa.BasicBlock, i int, ret map[*ssa.Call]*ssa.Return, rk string) {
		k := fr.key + "|" + b.Parent().Name() + "#" + itoa(b.Index) + ":" + itoa(i) + "|" + rk + "|" + cur.bk + "|" + cur.dk
		if seen[k] {
			return
		}
		seen[k] = true
		work = append(work, vpoint{fr: fr, blk: b, idx: i, ret: ret, rk: rk, benv: cur.benv, bk: cur.bk, denv: cur.denv, dk: cur.dk})
	}
	push := func(fr *frame, b *ssa.BasicBlock, i int) { pushR(fr, b, i, cur.ret, cur.rk) }
	edgeHit := false
	nextDenv, nextDk := map[string]bool(nil), ""
	pushFrom := func(fr *frame, b, pred *ssa.BasicBlock) {
		if targetEdge[0] != nil && pred == targetEdge[0] && b == targetEdge[1] {
			edgeHit = true // the search is for this CFG edge (pathExistsToEdge)
		}
		benv, bk := boolPhiEnv(cur.benv, cur.bk, b, pred)
		denv, dk := cur.denv, cur.dk
		if nextDenv != nil {
			denv, dk = nextDenv, nextDk
		}
		k := fr.key + "|" + b.Parent().Name() + "#" + itoa(b.Index) + ":0|" + cur.rk + "|" + bk + "|" + dk
		if seen[k] {
			return
		}
		seen[k] = true
		work = append(work, vpoint{fr: fr, blk: b, idx: 0, ret: cur.ret, rk: cur.rk, benv: benv, bk: bk, denv: denv, dk: dk})
	}
	defer func() { _ = edgeHit }()
	if from == nil {
		push(newFrame(root, nil, nil), root.Blocks[0], 0)
	} else {
		n := 0
		for _, fr := range framesUnder(root) {
			if fr.fn == from.Parent() {
				push(fr, from.Block(), instrIndex(from)+1)
				n++
			}
		}
		if n == 0 {
			// `from` does not lie under this root: search within its own function
			push(newFrame(from.Parent(), nil, nil), from.Block(), instrIndex(from)+1)
		}
	}
	for len(work) > 0 {
		pt := work[len(work)-1]
		work = work[:len(work)-1]
		cur = pt
		fr, b := pt.fr, pt.blk
		paramEnv = fr.env
		resultEnv = pt.ret
		stopped := false
		for i := pt.idx; i < len(b.Instrs); i++ {
			in := b.Instrs[i]
			if in == to {
				return true
			}
			if cutInstr != nil && cutInstr(in) {
				stopped = true
				break
			}
			if callee := transparentCallee(in); callee != nil && fr.depth() < 4 && !fr.has(callee) {
				push(newFrame(callee, in.(*ssa.Call), fr), callee.Blocks[0], 0)
				stopped = true // continues when the callee returns
				break
			}
			if rt, isRet := in.(*ssa.Return); isRet && fr.parent != nil {
				nr := map[*ssa.Call]*ssa.Return{}
				for k, v := range pt.ret {
					nr[k] = v
				}
				nr[fr.site] = rt
				pushR(fr.parent, fr.site.Block(), instrIndex(fr.site)+1, nr, retKey(nr))
				stopped = true
				break
			}
		}
		if stopped || len(b.Instrs) == 0 {
			continue
		}
		if iff, ok := b.Instrs[len(b.Instrs)-1].(*ssa.If); ok {
			cond := resolveBoolPhi(iff.Cond, pt.benv)
			hres, hneg := helperResultOnPath(cond, pt.ret)
			for i, br := range []bool{true, false} {
				if k, isK := constBool(cond); isK && k != br {
					continue
				}
				if hres != nil {
					// the condition is a result of a looked-through helper: on this path it is what the helper returned
					if k, isK := constBool(hres); isK && k != (br != hneg) {
						continue
					}
					if _, isK := constBool(hres); !isK && applyCut(cutEdge, hres, br != hneg) {
						continue
					}
				}
				if applyCut(cutEdge, cond, br) {
					continue
				}
				if cond != iff.Cond && applyCut(cutEdge, iff.Cond, br) {
					continue // (the fact is stated about the merged value the condition was resolved from)
				}
				if len(pt.ret) > 0 && (infeasibleEdge(cond, br) || nilTestContradictsReturn(cond, br, pt.ret)) {
					continue // contradicts the value the helper returned on this path
				}
				if factNil(neverNil, true)(cond, br) {
					continue // a defensive nil test of a value that is never nil (a fresh allocation, bufio.NewReader(…) …)
				}
				// a pure condition over unmodified local state that the function tests more than once comes out the same
				// way every time on one path (`case a == nil && …: … case a != nil:`)
				var contradiction bool
				nextDenv, nextDk, contradiction = decideRepeated(pt.denv, cond, br, b.Parent())
				if contradiction {
					continue
				}
				pushFrom(fr, b.Succs[i], b)
				nextDenv, nextDk = nil, ""
			}
		} else {
			for _, s := range b.Succs {
				pushFrom(fr, s, b)
			}
		}
		if edgeHit {
			return true
		}
	}
	return edgeHit
}

func itoa(i int) string {
	if i == 0 {
		return "0"
	}
	neg := i < 0
	if neg {
		i = -i
	}
	var b []byte
	for i > 0 {
		b = append([]byte{byte('0' + i%10)}, b...)
		i /= 10
	}
	if neg {
		return "-" + string(b)
	}
	return string(b)
}

// lenientFn resolves an anchor that no longer exists under its exact name: a method that became a function (or vice
// versa), within the same package, is matched by its base name when that is unambiguous.
func (p *Prog) lenientFn(name string) *ssa.Function {
	base := name
	if i := strings.LastIndex(base, "."); i >= 0 {
		base = base[i+1:]
	}
	pkg := name
	pkg = strings.TrimPrefix(pkg, "(")
	pkg = strings.TrimPrefix(pkg, "*")
	if i := strings.Index(pkg, ")"); i >= 0 {
		pkg = pkg[:i]
	}
	if i := strings.LastIndex(pkg, "."); i >= 0 {
		pkg = pkg[:i]
	}
	var found []*ssa.Function
	for n, f := range p.fnIdx {
		if f.Parent() != nil || p.isTestFn(f) {
			continue
		}
		b := n
		if i := strings.LastIndex(b, "."); i >= 0 {
			b = b[i+1:]
		}
		if b == base && short(fnPkgPath(f)) == pkg {
			found = append(found, f)
		}
	}
	if len(found) == 1 {
		return found[0]
	}
	return nil
}

// A Site is an instruction in one calling context of the virtually inlined root: a helper called from several places
// gives one site per place, each with its own parameter binding.
type Site struct {
	In ssa.Instruction
	Fr *frame
}

// sitesUnder lists, per calling context, the instructions under root accepted by match.
func sitesUnder(root *ssa.Function, match func(ssa.Instruction) bool) []Site {
	var out []Site
	for _, fr := range framesUnder(root) {
		for _, in := range ownInstrs(fr.fn) {
			if transparentCallee(in) != nil {
				continue
			}
			if match(in) {
				out = append(out, Site{In: in, Fr: fr})
			}
		}
	}
	return out
}

// callSitesUnder lists the call sites (per context) under root of the named callees.
func callSitesUnder(root *ssa.Function, names ...string) []Site {
	return sitesUnder(root, isCallInstrTo(names...))
}

// at evaluates fn with the parameter binding of the site's context.
func (s Site) at(fn func()) {
	saved := paramEnv
	paramEnv = s.Fr.env
	defer func() { paramEnv = saved }()
	fn()
}

// guarded reports whether every path from the root's entry to this site (in this very context) takes an edge
// accepted by pred.
func (s Site) guarded(root *ssa.Function, pred EdgePred) bool {
	return !viPathToSite(root, s, pred, nil)
}

// viPathToSite: some path from root's entry reaches the site in its own context, avoiding cut edges/instructions.
func viPathToSite(root *ssa.Function, s Site, cutEdge EdgePred, cutInstr func(ssa.Instruction) bool) bool {
	saved, savedRes := paramEnv, resultEnv
	defer func() { paramEnv, resultEnv, stripEnv = saved, savedRes, nil }()
	seen := map[string]bool{}
	var work []vpoint
	var cur vpoint
	pushR := func(fr *frame, b *ssa.BasicBlock, i int, ret map[*ssa.Call]*ssa.Return, rk string) {
		k := fr.key + "|" + b.Parent().Name() + "#" + itoa(b.Index) + ":" + itoa(i) + "|" + rk + "|" + cur.bk + "|" + cur.dk
		if seen[k] {
			return
		}
		seen[k] = true
		work = append(work, vpoint{fr: fr, blk: b, idx: i, ret: ret, rk: rk, benv: cur.benv, bk: cur.bk, denv: cur.denv, dk: cur.dk})
	}
	push := func(fr *frame, b *ssa.BasicBlock, i int) { pushR(fr, b, i, cur.ret, cur.rk) }
	nextDenv, nextDk := map[string]bool(nil), ""
	pushFrom := func(fr *frame, b, pred *ssa.BasicBlock) {
		benv, bk := boolPhiEnv(cur.benv, cur.bk, b, pred)
		denv, dk := cur.denv, cur.dk
		if nextDenv != nil {
			denv, dk = nextDenv, nextDk
		}
		k := fr.key + "|" + b.Parent().Name() + "#" + itoa(b.Index) + ":0|" + cur.rk + "|" + bk + "|" + dk
		if seen[k] {
			return
		}
		seen[k] = true
		work = append(work, vpoint{fr: fr, blk: b, idx: 0, ret: cur.ret, rk: cur.rk, benv: benv, bk: bk, denv: denv, dk: dk})
	}
	push(newFrame(root, nil, nil), root.Blocks[0], 0)
	for len(work) > 0 {
		pt := work[len(work)-1]
		work = work[:len(work)-1]
		cur = pt
		fr, b := pt.fr, pt.blk
		paramEnv = fr.env
		resultEnv = pt.ret
		stopped := false
		for i := pt.idx; i < len(b.Instrs); i++ {
			in := b.Instrs[i]
			if in == s.In && fr.key == s.Fr.key {
				return true
			}
			if cutInstr != nil && cutInstr(in) {
				stopped = true
				break
			}
			if callee := transparentCallee(in); callee != nil && fr.depth() < 4 && !fr.has(callee) {
				push(newFrame(callee, in.(*ssa.Call), fr), callee.Blocks[0], 0)
				stopped = true
				break
			}
			if rt, isRet := in.(*ssa.Return); isRet && fr.parent != nil {
				nr := map[*ssa.Call]*ssa.Return{}
				for k, v := range pt.ret {
					nr[k] = v
				}
				nr[fr.site] = rt
				pushR(fr.parent, fr.site.Block(), instrIndex(fr.site)+1, nr, retKey(nr))
				stopped = true
				break
			}
		}
		if stopped || len(b.Instrs) == 0 {
			continue
		}
		if iff, ok := b.Instrs[len(b.Instrs)-1].(*ssa.If); ok {
			cond := resolveBoolPhi(iff.Cond, pt.benv)
			hres, hneg := helperResultOnPath(cond, pt.ret)
			for i, br := range []bool{true, false} {
				if k, isK := constBool(cond); isK && k != br {
					continue
				}
				if hres != nil {
					// the condition is a result of a looked-through helper: on this path it is what the helper returned
					if k, isK := constBool(hres); isK && k != (br != hneg) {
						continue
					}
					if _, isK := constBool(hres); !isK && applyCut(cutEdge, hres, br != hneg) {
						continue
					}
				}
				if applyCut(cutEdge, cond, br) {
					continue
				}
				if cond != iff.Cond && applyCut(cutEdge, iff.Cond, br) {
					continue // (the fact is stated about the merged value the condition was resolved from)
				}
				if len(pt.ret) > 0 && (infeasibleEdge(cond, br) || nilTestContradictsReturn(cond, br, pt.ret)) {
					continue // contradicts the value the helper returned on this path
				}
				if factNil(neverNil, true)(cond, br) {
					continue // a defensive nil test of a value that is never nil (a fresh allocation, bufio.NewReader(…) …)
				}
				// a pure condition over unmodified local state that the function tests more than once comes out the same
				// way every time on one path (`case a == nil && …: … case a != nil:`)
				var contradiction bool
				nextDenv, nextDk, contradiction = decideRepeated(pt.denv, cond, br, b.Parent())
				if contradiction {
					continue
				}
				pushFrom(fr, b.Succs[i], b)
				nextDenv, nextDk = nil, ""
			}
		} else {
			for _, sc := range b.Succs {
				pushFrom(fr, sc, b)
			}
		}
	}
	return false
}

// definitelyNonNilError: every origin of v (on the path being explored) is the result of an error constructor.
func definitelyNonNilError(v ssa.Value) bool {
	os := originsOf(v)
	if len(os) == 0 {
		return false
	}
	for _, o := range os {
		call := asCall(o.V)
		if call == nil {
			return false
		}
		n := calleeName(&call.Call)
		switch {
		case n == "errors.New", n == "fmt.Errorf":
		case strings.HasPrefix(n, "github.com/go-openapi/errors.") && !strings.HasSuffix(n, ".CompositeValidationError"):
		default:
			return false
		}
	}
	return true
}

// infeasibleEdge prunes branches that cannot be taken on the path being explored: `v == nil` (or `!(v != nil)`) for a
// value that is, on this path, freshly constructed by an error constructor.
func infeasibleEdge(cond ssa.Value, branch bool) bool {
	return factNil(definitelyNonNilError, true)(cond, branch)
}

// retKey is the canonical form of a path's helper-return binding (finite: one entry per call site).
func retKey(m map[*ssa.Call]*ssa.Return) string {
	var parts []string
	for c, r := range m {
		parts = append(parts, c.Parent().Name()+"."+c.Name()+"="+itoa(r.Block().Index))
	}
	sort.Strings(parts)
	return strings.Join(parts, ";")
}

// boolPhiEnv extends the path's record of boolean phi operands when block b is entered from pred.
func boolPhiEnv(env map[*ssa.Phi]ssa.Value, key string, b, pred *ssa.BasicBlock) (map[*ssa.Phi]ssa.Value, string) {
	idx := -1
	for i, p := range b.Preds {
		if p == pred {
			idx = i
		}
	}
	if idx < 0 {
		return env, key
	}
	var out map[*ssa.Phi]ssa.Value
	for _, in := range b.Instrs {
		phi, ok := in.(*ssa.Phi)
		if !ok {
			break
		}
		if bt, isB := phi.Type().Underlying().(*types.Basic); !isB || bt.Kind() != types.Bool {
			// a merged error / pointer whose operand on this edge is plainly nil or plainly not nil (`keyErr = errors.New(…)`
			// in one branch, tested `keyErr != nil` after the merge): remembered so that the later nil test is decided
			e := phi.Edges[idx]
			if !(isNilConst(e) || nonNilDirect(e) || isCallResult(e)) {
				continue
			}
			switch phi.Type().Underlying().(type) {
			case *types.Interface, *types.Pointer, *types.Signature, *types.Map, *types.Slice:
			default:
				continue
			}
			if out == nil {
				out = map[*ssa.Phi]ssa.Value{}
				for k, v := range env {
					out[k] = v
				}
			}
			out[phi] = e
			continue
		}
		if out == nil {
			out = map[*ssa.Phi]ssa.Value{}
			for k, v := range env {
				out[k] = v
			}
		}
		out[phi] = resolveBoolPhi(phi.Edges[idx], env)
	}
	if out == nil {
		return env, key
	}
	var parts []string
	for k, v := range out {
		parts = append(parts, k.Name()+"="+v.Name())
	}
	sort.Strings(parts)
	return out, strings.Join(parts, ",")
}

// isCallResult: v is what a call returned (the call itself or one component of its result tuple).
func isCallResult(v ssa.Value) bool {
	if ex, ok := v.(*ssa.Extract); ok {
		_, isCall := ex.Tuple.(*ssa.Call)
		return isCall
	}
	_, ok := v.(*ssa.Call)
	return ok
}

// nonNilDirect: the value is, as it stands, the result of an error constructor or a fresh allocation.
func nonNilDirect(v ssa.Value) bool {
	switch x := v.(type) {
	case *ssa.Call:
		if x.Call.IsInvoke() {
			return false
		}
		n := calleeName(&x.Call)
		return n == "errors.New" || n == "fmt.Errorf" || (strings.HasPrefix(n, "github.com/go-openapi/errors.") && !strings.HasSuffix(n, ".CompositeValidationError"))
	case *ssa.MakeInterface:
		return neverNilD(x.X, 0) || nonNilDirect(x.X)
	}
	return neverNilD(v, 0)
}

// resolveBoolPhi replaces a boolean phi (possibly under negations) by the operand it took on the current path; a nil
// test of a merged error / pointer whose operand on this path is plainly nil or plainly not nil becomes a constant.
func resolveBoolPhi(c ssa.Value, env map[*ssa.Phi]ssa.Value) ssa.Value {
	if len(env) == 0 {
		return c
	}
	if bo, isBo := c.(*ssa.BinOp); isBo && (bo.Op == token.EQL || bo.Op == token.NEQ) {
		var phi *ssa.Phi
		if p, ok := bo.X.(*ssa.Phi); ok && isNilConst(bo.Y) {
			phi = p
		} else if p, ok := bo.Y.(*ssa.Phi); ok && isNilConst(bo.X) {
			phi = p
		}
		if phi != nil {
			if v, ok := env[phi]; ok {
				if isNilConst(v) {
					return ssa.NewConst(constant.MakeBool(bo.Op == token.EQL), c.Type())
				}
				if nonNilDirect(v) {
					return ssa.NewConst(constant.MakeBool(bo.Op == token.NEQ), c.Type())
				}
				if isCallResult(v) {
					// the merged error IS this call's error on the current path: the test is a test of that result
					if phi == bo.X {
						return &ssa.BinOp{Op: bo.Op, X: v, Y: bo.Y}
					}
					return &ssa.BinOp{Op: bo.Op, X: bo.X, Y: v}
				}
			}
		}
		return c
	}
	neg := false
	x := c
	for i := 0; i < 4; i++ {
		if u, ok := x.(*ssa.UnOp); ok && u.Op == token.NOT {
			x, neg = u.X, !neg
			continue
		}
		break
	}
	phi, ok := x.(*ssa.Phi)
	if !ok {
		return c
	}
	v, ok := env[phi]
	if !ok {
		return c
	}
	if !neg {
		return v
	}
	if k, isK := constBool(v); isK {
		return ssa.NewConst(constant.MakeBool(!k), v.Type())
	}
	return c
}

// pathExistsUnder is pathExists with the search rooted in one given function (a helper shared by several callers is
// entered from this root only).
func pathExistsUnder(root *ssa.Function, from, to ssa.Instruction, cutEdge EdgePred, cutInstr func(ssa.Instruction) bool) bool {
	return viPathExists(root, from, to, cutEdge, cutInstr)
}

// anonFuncsDeep lists the function literals of f and of the helpers f is looked through into.
func anonFuncsDeep(f *ssa.Function) []*ssa.Function {
	out := append([]*ssa.Function{}, f.AnonFuncs...)
	seen := map[*ssa.Function]bool{}
	for _, in := range instrs(f) {
		if callee := transparentCallee(in); callee != nil && !seen[callee] {
			seen[callee] = true
			out = append(out, callee.AnonFuncs...)
		}
	}
	return out
}

// targetEdge, when set, makes viPathExists look for a CFG edge instead of an instruction.
var targetEdge [2]*ssa.BasicBlock

// pathExistsToEdge: some path from the entry of f (from == nil) or from just after `from` takes the CFG edge
// pred -> succ without crossing an edge accepted by cutEdge. Boolean phis are resolved along the way, so the false
// edge of `if ok` with `ok := a && b` is reached only through `a` false or `b` false.
func pathExistsToEdge(f *ssa.Function, from ssa.Instruction, pred, succ *ssa.BasicBlock, cutEdge EdgePred) bool {
	targetEdge = [2]*ssa.BasicBlock{pred, succ}
	defer func() { targetEdge = [2]*ssa.BasicBlock{} }()
	any := false
	for _, root := range rootsOf(f) {
		if viPathExists(root, from, nil, cutEdge, nil) {
			any = true
		}
	}
	return any
}

// helperResultOnPath: cond is (a negation of) one result of a multi-result helper call that the path being explored has
// looked through; it returns the value the helper returned for that result on this path, and whether it is negated.
func helperResultOnPath(cond ssa.Value, ret map[*ssa.Call]*ssa.Return) (ssa.Value, bool) {
	if len(ret) == 0 {
		return nil, false
	}
	neg := false
	x := cond
	for i := 0; i < 4; i++ {
		if u, ok := x.(*ssa.UnOp); ok && u.Op == token.NOT {
			x, neg = u.X, !neg
			continue
		}
		break
	}
	if call, isCall := x.(*ssa.Call); isCall {
		// single-result helper used directly as the condition
		if r := ret[call]; r != nil && len(r.Results) == 1 {
			return r.Results[0], neg
		}
		return nil, false
	}
	ex, ok := x.(*ssa.Extract)
	if !ok {
		return nil, false
	}
	call, ok := ex.Tuple.(*ssa.Call)
	if !ok {
		return nil, false
	}
	r := ret[call]
	if r == nil || ex.Index >= len(r.Results) {
		return nil, false
	}
	return r.Results[ex.Index], neg
}

// nilTestContradictsReturn: cond tests a looked-through helper's result against nil, and on the path being explored
// the helper returned the constant nil (or a value that is certainly not nil) for it: the contradicting branch is dead.
func nilTestContradictsReturn(cond ssa.Value, branch bool, ret map[*ssa.Call]*ssa.Return) bool {
	c, b := cond, branch
	for i := 0; i < 4; i++ {
		if u, ok := c.(*ssa.UnOp); ok && u.Op == token.NOT {
			c, b = u.X, !b
			continue
		}
		break
	}
	bo, ok := c.(*ssa.BinOp)
	if !ok || (bo.Op != token.EQL && bo.Op != token.NEQ) {
		return false
	}
	var side ssa.Value
	switch {
	case isNilConst(bo.Y):
		side = bo.X
	case isNilConst(bo.X):
		side = bo.Y
	default:
		return false
	}
	rv, neg := helperResultOnPath(side, ret)
	if rv == nil || neg {
		return false
	}
	holdsNil := b == (bo.Op == token.EQL) // this branch claims side == nil
	if isNilConst(rv) {
		return !holdsNil
	}
	return false
}

// pureDelegate: f does nothing but call one library function with its own parameters, in order, and return that
// call's results, in order. It returns the callee.
func pureDelegate(f *ssa.Function) *ssa.Function {
	if len(f.Blocks) != 1 {
		return nil
	}
	var call *ssa.Call
	var ret *ssa.Return
	for _, in := range f.Blocks[0].Instrs {
		switch x := in.(type) {
		case *ssa.Call:
			if call != nil {
				return nil
			}
			call = x
		case *ssa.Return:
			ret = x
		case *ssa.Extract, *ssa.Alloc, *ssa.Store, *ssa.UnOp, *ssa.DebugRef, *ssa.MakeInterface, *ssa.ChangeType:
		default:
			return nil
		}
	}
	if call == nil || ret == nil {
		return nil
	}
	g := call.Call.StaticCallee()
	if g == nil || g.Blocks == nil || !isRepoPath(fnPkgPath(g)) || g == f {
		return nil
	}
	if len(call.Call.Args) != len(f.Params) {
		return nil
	}
	for i, a := range call.Call.Args {
		ok := a == ssa.Value(f.Params[i])
		if !ok {
			// a parameter spilled to a local (address taken for a pointer receiver) and loaded back / passed by address
			x := a
			if ld, isLd := x.(*ssa.UnOp); isLd && ld.Op == token.MUL {
				x = ld.X
			}
			if al, isAl := x.(*ssa.Alloc); isAl {
				for _, in := range f.Blocks[0].Instrs {
					if st, isSt := in.(*ssa.Store); isSt && st.Addr == ssa.Value(al) && st.Val == ssa.Value(f.Params[i]) {
						ok = true
					}
				}
			}
		}
		if !ok {
			return nil
		}
	}
	for i, r := range ret.Results {
		if len(ret.Results) == 1 && r == ssa.Value(call) {
			continue
		}
		ex, ok := r.(*ssa.Extract)
		if !ok || ex.Tuple != ssa.Value(call) || ex.Index != i {
			return nil
		}
	}
	return g
}

// decideRepeated records, for a pure condition the function tests more than once, the way it came out on this path;
// it reports a contradiction when the branch about to be taken disagrees with an earlier outcome of the same condition.
func decideRepeated(denv map[string]bool, cond ssa.Value, br bool, f *ssa.Function) (map[string]bool, string, bool) {
	key, neg, okK := stableCondKey(cond)
	if !okK || !repeatedCond(f, key) {
		return nil, "", false
	}
	val := br != neg
	if prev, has := denv[key]; has {
		return nil, "", prev != val
	}
	next := map[string]bool{key: val}
	for k2, v2 := range denv {
		next[k2] = v2
	}
	var ks []string
	for k2, v2 := range next {
		if v2 {
			ks = append(ks, k2+"=1")
		} else {
			ks = append(ks, k2+"=0")
		}
	}
	sort.Strings(ks)
	return next, strings.Join(ks, ";"), false
}

// stableCondKey names a PURE condition over state that cannot change while the function runs: an equality test
// between constants, parameters and fields read from a local struct variable that is written once (a by-value
// parameter) and whose address is used for field reads only. neg says the condition is the negation of the named one.
func stableCondKey(cond ssa.Value) (key string, neg bool, ok bool) {
	for i := 0; i < 4; i++ {
		if u, isU := cond.(*ssa.UnOp); isU && u.Op == token.NOT {
			cond, neg = u.X, !neg
			continue
		}
		break
	}
	bo, isB := cond.(*ssa.BinOp)
	if !isB || (bo.Op != token.EQL && bo.Op != token.NEQ) {
		return "", false, false
	}
	if bo.Op == token.NEQ {
		neg = !neg
	}
	kx, okx := stableOperandKey(bo.X)
	ky, oky := stableOperandKey(bo.Y)
	if !okx || !oky {
		return "", false, false
	}
	if ky < kx {
		kx, ky = ky, kx
	}
	return "eq(" + kx + "," + ky + ")", neg, true
}

func stableOperandKey(v ssa.Value) (string, bool) {
	switch x := v.(type) {
	case *ssa.Const:
		if x.Value == nil {
			return "nil:" + x.Type().String(), true
		}
		return "k:" + x.Value.ExactString(), true
	case *ssa.Parameter:
		return "p:" + x.Name(), true
	case *ssa.UnOp:
		if x.Op != token.MUL {
			return "", false
		}
		path := ""
		a := x.X
		for {
			fa, isFA := a.(*ssa.FieldAddr)
			if !isFA {
				break
			}
			path = "." + itoa(fa.Field) + path
			a = fa.X
		}
		al, isAl := a.(*ssa.Alloc)
		if !isAl || path == "" || !writtenOnceFieldReadOnly(al) {
			return "", false
		}
		return "a:" + al.Name() + path, true
	}
	return "", false
}

var wofroCache = map[*ssa.Alloc]bool{}

// writtenOnceFieldReadOnly: the local struct variable is stored to exactly once as a whole, in the entry block (a
// by-value parameter being spilled), and every other use of its address is a field address that is only loaded from.
func writtenOnceFieldReadOnly(al *ssa.Alloc) bool {
	if v, ok := wofroCache[al]; ok {
		return v
	}
	res := func() bool {
		if al.Referrers() == nil {
			return false
		}
		stores := 0
		var fieldOnlyLoaded func(fa *ssa.FieldAddr, d int) bool
		fieldOnlyLoaded = func(fa *ssa.FieldAddr, d int) bool {
			if fa.Referrers() == nil || d > 4 {
				return false
			}
			for _, r := range *fa.Referrers() {
				switch y := r.(type) {
				case *ssa.UnOp:
					if y.Op != token.MUL {
						return false
					}
				case *ssa.FieldAddr:
					if !fieldOnlyLoaded(y, d+1) {
						return false
					}
				case *ssa.DebugRef:
				default:
					return false
				}
			}
			return true
		}
		for _, r := range *al.Referrers() {
			switch y := r.(type) {
			case *ssa.Store:
				if y.Addr != ssa.Value(al) || y.Block() != al.Parent().Blocks[0] {
					return false
				}
				if _, isP := y.Val.(*ssa.Parameter); !isP {
					return false
				}
				stores++
			case *ssa.FieldAddr:
				if !fieldOnlyLoaded(y, 0) {
					return false
				}
			case *ssa.DebugRef:
			default:
				return false
			}
		}
		return stores == 1
	}()
	wofroCache[al] = res
	return res
}

var repeatedCondCache = map[*ssa.Function]map[string]int{}

// repeatedCond: the function has more than one If on the pure condition named key.
func repeatedCond(f *ssa.Function, key string) bool {
	m, ok := repeatedCondCache[f]
	if !ok {
		m = map[string]int{}
		for _, b := range f.Blocks {
			if len(b.Instrs) == 0 {
				continue
			}
			if iff, isIf := b.Instrs[len(b.Instrs)-1].(*ssa.If); isIf {
				// (a condition `a && b` held in a variable is a phi whose operands are the conjuncts decided on each path)
				var count func(v ssa.Value, d int)
				count = func(v ssa.Value, d int) {
					for i := 0; i < 4; i++ {
						if u, isU := v.(*ssa.UnOp); isU && u.Op == token.NOT {
							v = u.X
							continue
						}
						break
					}
					if phi, isPhi := v.(*ssa.Phi); isPhi && d < 3 {
						for _, e := range phi.Edges {
							count(e, d+1)
						}
						return
					}
					if k, _, okK := stableCondKey(v); okK {
						m[k]++
					}
				}
				count(iff.Cond, 0)
			}
		}
		repeatedCondCache[f] = m
	}
	return m[key] > 1
}

// neverNil: the value is, on every way it can be computed, a fresh allocation or the result of a standard-library
// constructor documented never to return nil — a nil test on it is a defensive check that cannot fire.
func neverNil(v ssa.Value) bool {
	return neverNilD(v, 0)
}

// (decided on the value itself — through merges and conversions only — so that it can be asked while a path is being
// explored without re-entering the path search)
func neverNilD(v ssa.Value, d int) bool {
	if d > 3 {
		return false
	}
	switch x := v.(type) {
	case *ssa.Alloc, *ssa.MakeMap, *ssa.MakeSlice, *ssa.MakeClosure, *ssa.MakeChan:
		return true
	case *ssa.ChangeType:
		return neverNilD(x.X, d+1)
	case *ssa.Phi:
		for _, e := range x.Edges {
			if !neverNilD(e, d+1) {
				return false
			}
		}
		return len(x.Edges) > 0
	case *ssa.Call:
		switch calleeName(&x.Call) {
		case "bufio.NewReader", "bufio.NewReaderSize", "bufio.NewWriter", "bufio.NewWriterSize", "bufio.NewScanner",
			"bytes.NewBuffer", "bytes.NewBufferString", "bytes.NewReader", "strings.NewReader", "strings.NewReplacer",
			"mime/multipart.NewWriter", "net/http.NewServeMux", "regexp.MustCompile", "crypto/x509.NewCertPool",
			"encoding/json.NewDecoder", "encoding/json.NewEncoder", "encoding/csv.NewReader", "encoding/csv.NewWriter",
			"encoding/xml.NewDecoder", "encoding/xml.NewEncoder":
			return true
		}
	}
	return false
}
