#!/bin/bash
# usage: confirm_refactor.sh <dir with patch.diff> — patch applies, builds, vets and the existing suite passes
export GOFLAGS=-mod=mod GOPROXY=off GOSUMDB=off GOTOOLCHAIN=local GOWORK=off
src=$1
d=$(mktemp -d /tmp/refconf.XXXXXX)
trap "rm -rf $d" EXIT
rsync -a --exclude .git /repo/ $d/
cd $d
res="refactor=$src"
if ! patch -p1 -s < $src/patch.diff; then echo "$res patch=NOAPPLY"; exit 1; fi
if go build ./... >/dev/null 2>&1 && go vet ./... >/dev/null 2>&1; then res="$res build=OK"; else res="$res build=FAIL"; fi
if go test -vet=off -count=1 ./... >/dev/null 2>&1; then res="$res suite=PASS"; else res="$res suite=FAIL"; fi
echo "$res"
