#!/bin/bash
# usage: confirm_seeded.sh <dir with patch.diff demo_test.go meta.json>
# Confirms, in a scratch copy of /repo: patch applies, builds, vets, existing suite passes, demo fails with patch, demo passes without.
export GOFLAGS=-mod=mod GOPROXY=off GOSUMDB=off GOTOOLCHAIN=local GOWORK=off
src=$1
d=$(mktemp -d /tmp/seedconf.XXXXXX)
trap "rm -rf $d" EXIT
rsync -a --exclude .git /repo/ $d/
cd $d
place=$(head -5 $src/demo_test.go | grep -o 'place in: *[A-Za-z0-9_/.-]*' | head -1 | sed 's/place in: *//')
[ -z "$place" ] && place=.
place=${place%/}
[ "$place" = "" ] && place=.
res="seed=$src place=$place"
cp $src/demo_test.go $d/$place/zz_seed_demo_test.go
if go test -count=1 ./$place/ >/dev/null 2>&1; then res="$res clean_demo=PASS"; else res="$res clean_demo=FAIL"; fi
rm $d/$place/zz_seed_demo_test.go
if ! patch -p1 -s < $src/patch.diff; then echo "$res patch=NOAPPLY"; exit 1; fi
if go build ./... >/dev/null 2>&1 && go vet ./... >/dev/null 2>&1; then res="$res build=OK"; else res="$res build=FAIL"; fi
if go test -vet=off -count=1 ./... >/dev/null 2>&1; then res="$res suite=PASS"; else res="$res suite=FAIL"; fi
cp $src/demo_test.go $d/$place/zz_seed_demo_test.go
if go test -count=1 ./$place/ >/dev/null 2>&1; then res="$res mutant_demo=PASS"; else res="$res mutant_demo=FAIL"; fi
echo "$res"
