#!/usr/bin/env python3
"""Regenerates /verif/MANIFEST.json from the table below (kept next to the checker so both change together)."""
import json, os, subprocess
here = os.path.dirname(os.path.dirname(os.path.abspath(__file__)))

# property -> (technique, level text, level note, design ref)
CLAIMED = {
 "C01": ("argument/value provenance (escaped path, cleaned path, decode-once), must-pass-through (404/405/dispatch), bounds obligations and trie structural rules on SSA of the router plumbing",
         "Static: decides the plumbing every dispatch depends on for all requests and specs; the trie's matching semantics (which pattern matches) is value-level and not decided.",
         "Trusts go/types+go/ssa; path.Clean, url.PathUnescape, regexp as documented.", "DESIGN.md §2 and §7, C01"),
 "C03": ("key provenance (canonical header lookup), nil-guard and totality rules, reflect-API typestate on default-derived values, constant-argument and overflow-pairing rules for strconv, error-discipline and per-location source tables, bounds obligations",
         "Static: decides lookup-by-canonical-name, total type mapping, decimal 64-bit parsing with overflow pairing, that every error/validation failure reaches the 422 accumulator and that each location reads its own source; literal denotation and validation rules are not decided.",
         "Trusts go/types+go/ssa; strconv, reflect, go-openapi/validate as documented.", "DESIGN.md §2 and §7, C03"),
 "C05": ("bounds obligations with guard/induction discharge and stated caller preconditions (P-bounds), sort-before-arrange dominance, must-pass-through for base reservation, separator-set and backtracking-completeness rules on SSA of the denco trie",
         "Static: decides the never-panics clause as bounds obligations (two real out-of-range reads are known findings) and the structural necessary conditions of order independence and complete backtracking; soundness/completeness of matching is not decided.",
         "Trusts go/types+go/ssa; trie-shape invariants listed in the invariant table.", "DESIGN.md §2 and §7, C05"),
 "C09": ("who-may-write over the VTA call graph from the request entry set, freshness of per-request objects, lock pairing, context-key/type agreement and cache short-circuit (must-pass-through) on SSA",
         "Static: decides that request-reachable code writes no shared structure, that matched routes are fresh copies, and that every memoising accessor reads what it writes and recomputes only on a miss; general data-race freedom is not decided.",
         "Trusts go/types+go/ssa and the VTA call graph (x/tools v0.29.0).", "DESIGN.md §2 and §7, C09"),
 "C02": ("must-pass-through (CFG edge-cut reachability), value provenance and loop-iteration analysis on SSA of the security interpreter (RouteAuthenticator(s).Authenticate, Context.Authorize, newSecureAPI, buildAuthenticators)",
         "Static: decides for all requirement structures and all per-scheme outcome vectors that admission, refusal and principal/scopes provenance have the required control-flow shape; does not decide user-supplied authenticators.",
         "Trusts go/types+go/ssa of x/tools v0.29.0; go-openapi/analysis returns the spec's requirement alternatives.", "DESIGN.md §2 and §7, C02"),
 "C06": ("must-pass-through, key/argument provenance and error-recording analysis on SSA of both content-type gates, validateContentType, runtime.ContentType, HasBody and AddRoute",
         "Static: decides that a consumer is selected and run only under HasBody, by the parsed media type, after admission, with every gate error recorded, and that the API default is always admitted; does not decide the header grammar (mime).",
         "Trusts go/types+go/ssa; mime.ParseMediaType and swag.ContainsStringsCI as documented.", "DESIGN.md §2 and §7, C06"),
 "C07": ("value provenance (result is an offer), edge-guard analysis (q=0 never selects), bounded-accumulator and loop-exit rules on SSA of the Accept parser, must-pass-through for the 406 gate",
         "Static: decides the structural necessary conditions of negotiation (only offers are returned, q=0 never selects, q accumulators cannot overflow, digit loop consumes all digits, 406 recorded and stops binding). The lexicographic maximum itself is not decided.",
         "Trusts go/types+go/ssa.", "DESIGN.md §2 and §7, C07"),
 "C08": ("table-key provenance (normalised media types), dominance (header before body), must-pass-through (HEAD/204, JSON fallback, realm marker) on SSA of Context.Respond, errorResp and the basic authenticators",
         "Static: decides producer selection by normalised format, status provenance, no body for HEAD/204, error-responder wiring and the WWW-Authenticate realm marker for every path; does not decide producer output.",
         "Trusts go/types+go/ssa.", "DESIGN.md §2 and §7, C08"),
 "C10": ("value provenance of the URL text (join-then-escape-substitute), must-pass-through on key-presence precedence, loop-shape rules for the scheme scan, error discipline on SSA of request.buildHTTP and Runtime",
         "Static: decides escape-at-substitution after path.Join, encoded query with caller-over-static precedence by key presence, whole-list https scan, scheme/host provenance; injectivity of escaping and value-level outcomes are not decided.",
         "Trusts go/types+go/ssa; url.PathEscape, path.Join, url.Values.Encode as documented.", "DESIGN.md §2 and §7, C10"),
 "C11": ("read-length typestate on io.Reader buffers, closure/captured-variable provenance for the GetBody override, pipe/writer/boundary pairing, loop-iteration rules for fields and files on SSA of request.buildHTTP",
         "Static: decides buf[:n] discipline, rest-of-file preservation, override-whenever-foreign-body, rebinding before bytes are shown, header/boundary pairing and that no field/file iteration is skipped; byte equality on the wire is not decided.",
         "Trusts go/types+go/ssa; mime/multipart, io.Pipe as documented.", "DESIGN.md §2 and §7, C11"),
 "C12": ("acquire/release pairing on all exits with defer awareness (cancel functions, response body, pipe read end, files, pipe writer), error-to-CloseWithError propagation, who-may-spawn over the call graph on SSA of Submit, buildHTTP and the keep-alive reader",
         "Static: decides that every exit releases what the call holds and that failures of the upload reach the pipe as errors; wall-clock deadlines and server behaviour are not decided.",
         "Trusts go/types+go/ssa; net/http closes request bodies it is handed.", "DESIGN.md §2 and §7, C12"),
 "C13": ("lookup-key and value provenance for consumer selection, who-may-write on http.Response and on the shared Runtime over the call graph, sync.Once initialisation shape",
         "Static: decides consumer-by-parsed-media-type with catch-all fallback, transparent adapter, per-operation precedence and that the only shared write is the Once-guarded fresh client; response correlation under concurrency is net/http's.",
         "Trusts go/types+go/ssa and the VTA call graph.", "DESIGN.md §2 and §7, C13"),
 "C14": ("principal/argument provenance, must-pass-through for not-applicable and bearer precedence (with phi-edge reasoning), sibling event-sequence agreement, constant/encoder identity on the client writers",
         "Static: decides callback-only principals, exact credential hand-over, header>query>form precedence, plain/Ctx agreement, shared header constant and StdEncoding, default-credential gating; string round-trip equality is not decided.",
         "Trusts go/types+go/ssa; net/http BasicAuth/FormValue as documented.", "DESIGN.md §2 and §7, C14"),
 "C15": ("error-discipline (every fallible call's error reaches the return), defer-before-I/O pairing for stream and source closing, reflect-API validity typestate, buffer-privacy provenance on SSA of the built-in codecs",
         "Static: decides that codec errors are returned, streams are closed iff requested and closable sources always, typed-nil/nil operands yield errors, stored bytes never alias; round-trip equality is the stdlib encoders' and not decided.",
         "Trusts go/types+go/ssa; encoding/json, xml, yaml.v3, bytes, io as documented.", "DESIGN.md §2 and §7, C15"),
 "C16": ("must-pass-through (options applied before use, per object incl. captured ones), reflect slice typestate, retention-by-copy provenance, error discipline with io.EOF absorption, pipe-end pairing in goroutines on SSA of the CSV codec",
         "Static: decides that every source/destination kind sees the same options, SetCap/SetLen typestate, overwrite of destinations, copy-on-retain, returned parser errors and closed pipe ends; record equality with encoding/csv is not decided.",
         "Trusts go/types+go/ssa; encoding/csv, errgroup as documented.", "DESIGN.md §2 and §7, C16"),
 "C19": ("argument provenance of the five verify pairs, must-pass-through (all categories on success), no-early-exit loop rules, who-may-write on the registry tables, normalisation agreement between writers and readers, tabled request-time failure sites over the call graph",
         "Static: decides that validate compares the right tables with the right requirement lists completely, that Register*/readers normalise identically and are the only writers, and that request-time failure sites are exactly the tabled ones; set arithmetic on concrete inputs is not decided.",
         "Trusts go/types+go/ssa; go-openapi/analysis requirement lists.", "DESIGN.md §2 and §7, C19"),
 "C17": ("typestate (open/closed) and delegation-target analysis on SSA of HasBody and peekingReader, nil-receiver contradiction rule",
         "Static: decides single-buffer delegation, non-consuming probe, fast-path conditions, close-once state machine and nil-receiver safety on all paths; byte sequences under chunking are bufio's and not decided.",
         "Trusts go/types+go/ssa; bufio.Reader as documented.", "DESIGN.md §2 and §7, C17"),
 "C20": ("must-pass-through on string-equality interception, request-immutability (no store through the request), wiring provenance of the UI/spec constructors, html/template receiver types, constant-template field check",
         "Static: decides that Spec/serveUI intercept only on equality of the cleaned path, forward (rw, r) untouched otherwise, escape options via html/template, and that the API handlers derive the spec route from SpecURL for every parsable URL.",
         "Trusts go/types+go/ssa; path.Clean/url.Parse/html/template as documented.", "DESIGN.md §2 and §7, C20"),
 "C18": ("field-provenance and must-pass-through analysis on SSA/CFG of TLSClientAuth (all option combinations at once)",
         "Static: for every path of the loop-free TLSClientAuth, decides which value each security-relevant tls.Config field receives and that errors are returned; covers the whole option lattice symbolically. Does not decide crypto/tls handshake behaviour.",
         "Trusts go/types+go/ssa of x/tools v0.29.0 and the documented meaning of tls.Config fields.", "DESIGN.md §2 and §7, C18"),
}
NOT_APPLICABLE = {
 "C04": "Round-trip equality between two programs over the whole value space of every parameter position: no clause of its own is visible in code shape; its structural halves are decided under C01 (decode once), C03 (canonical header lookup), C10 (escape at substitution), C11 (body bytes), C13 (response adapter). See DESIGN.md §2 C04.",
}
ALL = ["C%02d" % i for i in range(1, 21)]
PENDING_REASON = "static rules for this property are designed (DESIGN.md §2) but not yet implemented in rtcheck; not claimed until the check exists"

def main():
    checks = []
    for pid in ALL:
        if pid not in CLAIMED:
            continue
        tech, text, note, ref = CLAIMED[pid]
        checks.append({
            "property_id": pid,
            "quick_cmd": "tools/run.sh %s quick" % pid,
            "thorough_cmd": "tools/run.sh %s thorough" % pid,
            "evidence_file": "/verif/evidence/%s.json" % pid,
            "replay_cmd_template": "cat {path}",
            "engine": "rtcheck",
            "level_claimed": {"category": "other", "text": text, "design_ref": ref},
            "level_note": note,
            "technique": "static analysis: " + tech,
        })
    na = []
    for pid in ALL:
        if pid in CLAIMED:
            continue
        na.append({"property_id": pid, "reason": NOT_APPLICABLE.get(pid, PENDING_REASON)})
    m = {
        "version": 1,
        "setup_cmd": "cd /verif/rtcheck && GOFLAGS=-mod=mod GOPROXY=off GOSUMDB=off GOTOOLCHAIN=local GOWORK=off go build -o ../bin/rtcheck .",
        "hooks": {
            "guard": "verif",
            "enable": "none needed: the checks are purely static and analyse /repo's working tree as it is (no instrumentation, no hook commits)",
            "baseline_off_cmd": "cd /repo && go test -mod=mod -json -vet=off -count=1 -timeout 25m ./...",
            "source_commits": [],
            "add_only": True,
        },
        "engines": [{
            "name": "rtcheck",
            "path": "/verif/rtcheck",
            "serves_properties": sorted(CLAIMED),
            "kind_free_text": "repository-specific static analyser (go/packages + go/types + go/ssa, x/tools v0.29.0): provenance, must-pass-through, who-may-write, typestate and bounds obligations keyed by rule/function/construct; analyses /repo's current tree on every run, executes nothing",
        }],
        "checks": checks,
        "not_applicable": na,
        "notes": "All checks are static (family: static analysis). exit 0 = every obligation discharged or listed in known-findings.json (printed as KNOWN-FINDING); exit 1 + VIOLATION line = an unlisted obligation failed; exit 2 = no verdict: a tool error (load failure / unresolved anchor) or UNDECIDED (printed as such, with the recognition obligations that failed: the code was restructured beyond what the rules recognise, or the failing obligation lies in code that involves functions/types/variables unknown to the baseline the rules were confirmed against) - never a VIOLATION line. Thorough tier = same rules over 5 build configurations (incl. tests, windows, darwin, 386) plus self-validation against stored mutant patches (analysed, not executed).",
    }
    with open(os.path.join(here, "MANIFEST.json"), "w") as f:
        json.dump(m, f, indent=1)
        f.write("\n")
    print("claimed:", sorted(CLAIMED), "not claimed:", [x["property_id"] for x in na])

main()
