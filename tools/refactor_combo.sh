#!/bin/bash
# usage: tools/refactor_combo.sh  — applies, per property, as many of its stored refactor probes as apply on top of each
# other (all rounds), and analyses the combined tree under every property: behaviour-preserving edits must stay quiet
# in combination as well. Scratch copies under /tmp, removed at once.
props="C01 C02 C03 C05 C06 C07 C08 C09 C10 C11 C12 C13 C14 C15 C16 C17 C18 C19 C20"
one() {
  pid=$1
  s=$(mktemp -d /tmp/rtc.XXXXXX)
  rsync -a --exclude .git /repo/ $s/
  applied=""
  for d in $(ls -d /verif/refactors/$pid-* | sort -R --random-source=<(yes)); do
    if (cd $s && patch -p1 -s -f --dry-run < $d/patch.diff >/dev/null 2>&1); then
      (cd $s && patch -p1 -s -f < $d/patch.diff >/dev/null 2>&1) && applied="$applied $(basename $d)"
    fi
  done
  if ! (cd $s && GOFLAGS=-mod=mod GOPROXY=off GOSUMDB=off GOTOOLCHAIN=local go build ./... >/dev/null 2>&1); then echo "$pid combo does not build:$applied"; rm -rf $s; return; fi
  bad=""
  for p in $props; do
    ${RTCHECK:-/verif/bin/rtcheck} -property $p -tier quick -repo $s -verif /verif -no-evidence > $s/.out 2>&1; r=$?
    if [ $r -eq 1 ]; then bad="$bad $p:$(grep -o 'FAILED R[0-9.]*/[^ ]*' $s/.out | head -2 | sed 's/FAILED //' | tr '\n' ',')";
    elif [ $r -ne 0 ]; then bad="$bad $p:TOOL-ERROR($(tail -1 $s/.out | cut -c1-140))"; fi
  done
  rm -rf $s
  if [ -z "$bad" ]; then echo "$pid quiet [$applied ]"; else echo "$pid ALARM$bad [$applied ]"; fi
}
export -f one; export props
echo $props | tr ' ' '\n' | xargs -P ${PAR:-6} -I{} bash -c 'one {}'
