#!/bin/bash
# usage: tools/refactor_cross.sh [dir]  — every behaviour-preserving probe is analysed under EVERY property's rules
# (a refactor in code shared by several properties must stay quiet for all of them). Scratch copies live under /tmp
# and are removed as soon as a probe is done.
dir=${1:-/verif/refactors}
props="C01 C02 C03 C05 C06 C07 C08 C09 C10 C11 C12 C13 C14 C15 C16 C17 C18 C19 C20"
one() {
  d=$1; name=$(basename $d)
  s=$(mktemp -d /tmp/rtx.XXXXXX)
  rsync -a --exclude .git /repo/ $s/
  if ! (cd $s && patch -p1 -s < $d/patch.diff); then echo "$name DOES-NOT-APPLY"; rm -rf $s; return; fi
  bad=""; und=""
  for p in $props; do
    ${RTCHECK:-/verif/bin/rtcheck} -property $p -tier quick -repo $s -verif /verif -no-evidence > $s/.out 2>&1; r=$?
    if [ $r -eq 1 ]; then bad="$bad $p:$(grep -o 'FAILED R[0-9.]*/[^ ]*' $s/.out | head -2 | sed 's/FAILED //' | tr '\n' ',')";
    elif [ $r -ne 0 ] && grep -q "^UNDECIDED property=" $s/.out; then und="$und $p:$(grep -o 'UNRECOGNISED R[0-9.]*/[^ ]*' $s/.out | head -2 | sed 's/UNRECOGNISED //' | tr '\n' ',')";
    elif [ $r -ne 0 ]; then bad="$bad $p:TOOL-ERROR($(tail -1 $s/.out | cut -c1-120))"; fi
  done
  rm -rf $s
  if [ -z "$bad" ] && [ -z "$und" ]; then echo "$name quiet"; elif [ -z "$bad" ]; then echo "$name undecided$und"; else echo "$name ALARM$bad UNDECIDED$und"; fi
}
export -f one; export props
ls -d $dir/*/ | xargs -P ${PAR:-6} -I{} bash -c 'one {}'
