#!/bin/bash
# usage: tools/refactor_matrix.sh <dir>  — runs every refactor probe under <dir>/Cxx/k against its property's check (+ related ones)
dir=${1:-/verif/refactors}
for d in $dir/*/*/ $dir/*/; do
  [ -f $d/patch.diff ] || continue
  prop=$(python3 -c "import json;print(json.load(open('$d/meta.json'))['property'])")
  out=$(/verif/tools/tryrefactor.sh $d/patch.diff $prop 2>&1)
  v=$(echo "$out" | grep -o "$prop: [A-Za-z ()]*" | head -1)
  r=$(echo "$out" | grep -o "FAILED R[0-9.]*/[^ ]* *[^ ]*" | head -3 | sed 's/FAILED //' | tr '\n' ' ' | cut -c1-230)
  e=$(echo "$out" | grep -i "TOOL ERROR\|anchor\|INTERNAL" | head -2 | tr '\n' ' ' | cut -c1-200)
  echo "$(echo $d | sed "s#$dir/##") $v $r $e"
done
