#!/bin/bash
# usage: tools/run.sh <property> <quick|thorough>
# Runs the static checker on /repo's current working tree. (Re)builds the checker when needed, offline.
set -u
here=$(cd "$(dirname "$0")/.." && pwd)
export GOFLAGS=-mod=mod GOPROXY=off GOSUMDB=off GOTOOLCHAIN=local GOWORK=off
unset GOOS GOARCH
bin="$here/bin/rtcheck"
need=0
if [ ! -x "$bin" ]; then need=1; else
  for f in "$here"/rtcheck/*.go "$here"/rtcheck/go.mod; do [ "$f" -nt "$bin" ] && need=1; done
fi
if [ $need -eq 1 ]; then
  mkdir -p "$here/bin"
  (cd "$here/rtcheck" && go build -o "$bin" .) || { echo "rtcheck: build failed" >&2; exit 2; }
fi
exec "$bin" -property "$1" -tier "${2:-quick}" -repo "${RTCHECK_REPO:-/repo}" -verif "$here"
