#!/bin/bash
# usage: tools/seeded_matrix.sh [dir-with-seeded]   (default /verif/seeded)
# Runs, for every seeded defect, the check of the property it breaks on a scratch copy with the patch applied.
dir=${1:-/verif/seeded}
for d in $dir/*/; do
  [ -f $d/patch.diff ] || continue
  prop=$(python3 -c "import json;print(json.load(open('$d/meta.json'))['property'])")
  out=$(/verif/tools/trymutant.sh $d/patch.diff $prop 2>&1)
  verdict=$(echo "$out" | grep -o "$prop: [A-Za-z ]*" | head -1)
  rule=$(echo "$out" | grep -o "FAILED R[0-9.]*/[^ ]*" | head -1 | sed 's/FAILED //')
  echo "$(basename $d) $verdict $rule"
done
