#!/bin/bash
# usage: showref.sh <refactor-id> <prop>
d=$(mktemp -d /tmp/rtref.XXXXXX); rsync -a --exclude .git /repo/ $d/; (cd $d && patch -p1 -s < /verif/refactors/$1/patch.diff)
/verif/bin/rtcheck -property $2 -repo $d -no-evidence 2>&1 | grep -A2 "FAILED\|ERROR" | cut -c1-${W:-420}
rm -rf $d
