#!/bin/bash
# usage: trymutant.sh <patch.diff> <property> [more properties]
# Applies the patch to a scratch copy of /repo (outside /repo and /verif), runs rtcheck on it (analysis only), removes the copy.
patch=$1; shift
d=$(mktemp -d /tmp/rtmut.XXXXXX)
rsync -a --exclude .git /repo/ $d/
if ! (cd $d && patch -p1 -s < "$patch"); then echo "PATCH DOES NOT APPLY: $patch"; rm -rf $d; exit 3; fi
rc=0
for p in "$@"; do
  ${RTCHECK:-/verif/bin/rtcheck} -property $p -tier quick -repo $d -verif /verif -no-evidence > $d/.out 2>&1; r=$?
  if [ $r -eq 1 ]; then echo "  $p: DETECTED"; grep -A2 '  FAILED' $d/.out | grep -v '^--' | head -${LINES_MAX:-9}; 
  elif [ $r -eq 0 ]; then echo "  $p: missed"; rc=1;
  elif grep -q "^UNDECIDED property=" $d/.out; then echo "  $p: undecided"; grep -A2 '  UNRECOGNISED' $d/.out | grep -v '^--' | head -6; rc=1;
  else echo "  $p: TOOL ERROR"; tail -5 $d/.out; rc=2; fi
done
rm -rf $d
exit $rc
