#!/bin/bash
# usage: tryrefactor.sh <patch.diff> <property>...   — a behaviour-preserving edit must NOT raise an alarm
patch=$1; shift
d=$(mktemp -d /tmp/rtref.XXXXXX)
rsync -a --exclude .git /repo/ $d/
if ! (cd $d && patch -p1 -s < "$patch"); then echo "PATCH DOES NOT APPLY: $patch"; rm -rf $d; exit 3; fi
rc=0
for p in "$@"; do
  ${RTCHECK:-/verif/bin/rtcheck} -property $p -tier quick -repo $d -verif /verif -no-evidence > $d/.out 2>&1; r=$?
  if [ $r -eq 0 ]; then echo "  $p: quiet (ok)";
  elif [ $r -eq 1 ]; then echo "  $p: FALSE ALARM"; grep -A2 '  FAILED' $d/.out | grep -v '^--' | cut -c1-260 | head -${LINES_MAX:-12}; rc=1;
  elif grep -q "^UNDECIDED property=" $d/.out; then echo "  $p: UNDECIDED"; grep -A2 '  UNRECOGNISED' $d/.out | grep -v '^--' | cut -c1-260 | head -${LINES_MAX:-12}; rc=1;
  else echo "  $p: TOOL ERROR"; tail -4 $d/.out | cut -c1-300; rc=2; fi
done
rm -rf $d
exit $rc
